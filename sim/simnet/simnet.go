// Package simnet is the simulated TCP network (DESIGN §2.3): in-memory listeners and
// connections whose segmentation, delivery instants, short reads, back-pressure, resets
// and closes are decided by the run's PRNG and the scheduler.
package simnet

import (
	"errors"
	"fmt"
	"os"
	"io"
	"math/rand"
	"net"
	"time"

	"github.com/jhalter/mobius/verifsim/simrt"
)

// Seg is a segmentation policy for one direction of a connection.
type Seg int

const (
	SegWhole  Seg = iota // everything in flight is delivered at once
	SegRandom            // random cut points
	SegByte              // one byte per segment
	SegMSS               // fixed small segments (MSS field)
	SegScript            // explicit list of segment sizes, then whole
)

// Debug enables wait-for diagnostics.
var Debug = os.Getenv("VERIF_DEBUG") != ""

var (
	ErrReset  = errors.New("simnet: connection reset by peer")
	ErrClosed = errors.New("simnet: use of closed network connection")
	ErrPipe   = errors.New("simnet: broken pipe")
)

// Net is one simulated network.
type Net struct {
	Sim    *simrt.Sim
	Rng    *rand.Rand
	nextID int
	conns  []*Conn
	// defaults applied to new connections
	C2S, S2C   Seg
	MSS        int
	ShortReads bool
	SendBuf    int // bytes; 0 = unbounded
	Stats      Stats
}

type Stats struct {
	Segments, ShortReads, Resets, Closes, Conns, BlockedWrites, BytesC2S, BytesS2C int64
}

func NewNet(s *simrt.Sim, seed int64) *Net {
	return &Net{Sim: s, Rng: rand.New(rand.NewSource(seed)), MSS: 7}
}

type pipe struct {
	net        *Net
	id         int
	buf        []byte // delivered, unread
	inflight   []byte // written, not delivered
	fin        bool   // writer closed; EOF follows the data
	finDone    bool
	rst        bool
	readerGone bool
	hold       bool // delivery paused (stall fault)
	rq, wq     simrt.WaitQ
	seg        Seg
	mss        int
	script     []int
	cap        int
	Written    int64
	Delivered  int64
	c2s        bool
	hb         simrt.SyncObj
}

func (p *pipe) EventID() int { return simrt.EventBase + p.id }
func (p *pipe) Enabled() bool {
	if p.hold || p.rst {
		return false
	}
	return len(p.inflight) > 0 || (p.fin && !p.finDone)
}

func (p *pipe) Fire(rng *rand.Rand) {
	n := len(p.inflight)
	if n > 0 {
		switch p.seg {
		case SegRandom:
			// half of the time tiny segments, otherwise uniform
			if rng.Intn(2) == 0 {
				n = 1 + rng.Intn(min(n, 24))
			} else {
				n = 1 + rng.Intn(n)
			}
		case SegByte:
			n = 1
		case SegMSS:
			n = min(n, p.mss)
		case SegScript:
			if len(p.script) > 0 {
				n = min(n, max(1, p.script[0]))
				p.script = p.script[1:]
			}
		}
		p.buf = append(p.buf, p.inflight[:n]...)
		p.inflight = p.inflight[n:]
		p.Delivered += int64(n)
		p.net.Stats.Segments++
	}
	if len(p.inflight) == 0 && p.fin {
		p.finDone = true
	}
	simrt.Wake(&p.rq)
}

// Addr implements net.Addr for listeners.
type Addr string

func (a Addr) Network() string { return "tcp" }
func (a Addr) String() string  { return string(a) }

// Conn is one end of a simulated TCP connection.
type Conn struct {
	net     *Net
	ID      int
	r, w    *pipe
	local   net.Addr
	remote  net.Addr
	closed  bool
	wbusy   bool
	wlq     simrt.WaitQ
	peer    *Conn
	Server  bool
	BytesIn int64
	rdl     time.Time
}

var _ net.Conn = (*Conn)(nil)

func (c *Conn) Read(b []byte) (int, error) {
	p := c.r
	for {
		if c.closed {
			return 0, ErrClosed
		}
		if p.rst {
			return 0, ErrReset
		}
		if len(p.buf) > 0 {
			n := min(len(b), len(p.buf))
			if n > 1 && c.net.ShortReads && c.net.Rng.Intn(3) == 0 {
				n = 1 + c.net.Rng.Intn(n)
				c.net.Stats.ShortReads++
			}
			copy(b, p.buf[:n])
			p.buf = p.buf[n:]
			c.BytesIn += int64(n)
			p.hb.Acquire()
			simrt.Wake(&p.wq)
			return n, nil
		}
		if p.finDone {
			return 0, io.EOF
		}
		if len(b) == 0 {
			return 0, nil
		}
		if simrt.Self() == nil {
			return 0, errors.New("simnet: read would block outside a simulated thread")
		}
		if !c.rdl.IsZero() {
			rem := time.Until(c.rdl)
			if rem <= 0 {
				return 0, os.ErrDeadlineExceeded
			}
			simrt.ParkTimeout(&p.rq, rem)
			continue
		}
		if Debug {
			simrt.SetNote(fmt.Sprintf("read conn %d server=%v inflight=%d fin=%v", c.ID, c.Server, len(p.inflight), p.fin))
		}
		simrt.Park(&p.rq)
	}
}

func (c *Conn) Write(b []byte) (int, error) {
	if simrt.Self() != nil {
		simrt.Yield("netwrite")
		for c.wbusy {
			simrt.Park(&c.wlq)
		}
	}
	if c.closed {
		return 0, ErrClosed
	}
	c.wbusy = true
	defer func() { c.wbusy = false; simrt.Wake(&c.wlq) }()

	p := c.w
	n := 0
	for len(b) > 0 {
		if c.closed {
			return n, ErrClosed
		}
		if p.rst {
			return n, ErrReset
		}
		if p.readerGone {
			return n, ErrPipe
		}
		k := len(b)
		if p.cap > 0 {
			space := p.cap - len(p.buf) - len(p.inflight)
			if space <= 0 {
				c.net.Stats.BlockedWrites++
				if Debug {
					simrt.SetNote(fmt.Sprintf("write conn %d server=%v blocked on full buffer", c.ID, c.Server))
				}
				simrt.Park(&p.wq)
				continue
			}
			k = min(k, space)
		}
		p.inflight = append(p.inflight, b[:k]...)
		p.Written += int64(k)
		if p.c2s {
			c.net.Stats.BytesC2S += int64(k)
		} else {
			c.net.Stats.BytesS2C += int64(k)
		}
		p.hb.Release()
		n += k
		b = b[k:]
	}
	return n, nil
}

// Close closes the connection gracefully: the peer reads EOF after the data in flight.
func (c *Conn) Close() error {
	if c.closed {
		return ErrClosed
	}
	c.closed = true
	c.net.Stats.Closes++
	c.w.fin = true
	c.r.readerGone = true
	c.r.buf, c.r.inflight = nil, nil
	simrt.Wake(&c.r.rq)
	simrt.Wake(&c.r.wq)
	simrt.Wake(&c.w.wq)
	return nil
}

// CloseWrite half-closes: the peer sees EOF but this end can still read.
func (c *Conn) CloseWrite() error {
	c.w.fin = true
	return nil
}

// Reset aborts the connection in both directions; undelivered data is lost.
func (c *Conn) Reset() {
	c.net.Stats.Resets++
	for _, p := range []*pipe{c.r, c.w} {
		p.rst = true
		p.inflight = nil
		p.buf = nil
		simrt.Wake(&p.rq)
		simrt.Wake(&p.wq)
	}
}

// Hold pauses (true) or resumes delivery of what this end writes.
func (c *Conn) Hold(h bool) { c.w.hold = h }

// HoldIncoming pauses or resumes delivery towards this end (a peer that stopped reading the wire).
func (c *Conn) HoldIncoming(h bool) { c.r.hold = h }

// SetSeg sets the segmentation policy of what this end writes.
func (c *Conn) SetSeg(s Seg, mss int, script []int) {
	c.w.seg, c.w.mss, c.w.script = s, mss, script
}

// PeerClosed reports whether the peer closed or reset the connection and all data was read.
func (c *Conn) PeerClosed() bool { return c.r.rst || (c.r.finDone && len(c.r.buf) == 0) }

// Pending reports bytes written by the peer that this end has not read yet.
func (c *Conn) Pending() int { return len(c.r.buf) + len(c.r.inflight) }

func (c *Conn) WrittenBytes() int64          { return c.w.Written }
func (c *Conn) LocalAddr() net.Addr          { return c.local }
func (c *Conn) RemoteAddr() net.Addr         { return c.remote }
func (c *Conn) SetDeadline(t time.Time) error { c.rdl = t; return nil }
func (c *Conn) SetReadDeadline(t time.Time) error { c.rdl = t; return nil }
func (c *Conn) SetWriteDeadline(time.Time) error { return nil }

// Listener is a simulated listening socket.
type Listener struct {
	net    *Net
	addr   *net.TCPAddr
	queue  []*Conn
	q      simrt.WaitQ
	closed bool
}

func (n *Net) Listen(port int) *Listener {
	return &Listener{net: n, addr: &net.TCPAddr{IP: net.IPv4(10, 0, 0, 1), Port: port}}
}

func (l *Listener) Accept() (net.Conn, error) {
	for {
		if l.closed {
			return nil, ErrClosed
		}
		if len(l.queue) > 0 {
			c := l.queue[0]
			l.queue = l.queue[1:]
			return c, nil
		}
		simrt.Park(&l.q)
	}
}

func (l *Listener) Close() error {
	l.closed = true
	simrt.Wake(&l.q)
	return nil
}

func (l *Listener) Addr() net.Addr { return l.addr }

// Dial connects to l from the given IPv4 address and port; returns the client end.
func (n *Net) Dial(l *Listener, ip string, port int) *Conn {
	id := n.nextID
	n.nextID++
	n.Stats.Conns++
	c2s := &pipe{net: n, id: 2 * id, seg: n.C2S, mss: n.MSS, c2s: true}
	s2c := &pipe{net: n, id: 2*id + 1, seg: n.S2C, mss: n.MSS, cap: n.SendBuf}
	caddr := &net.TCPAddr{IP: net.ParseIP(ip), Port: port}
	cl := &Conn{net: n, ID: id, r: s2c, w: c2s, local: caddr, remote: l.addr}
	sv := &Conn{net: n, ID: id, r: c2s, w: s2c, local: l.addr, remote: caddr, Server: true}
	cl.peer, sv.peer = sv, cl
	n.conns = append(n.conns, cl)
	n.Sim.AddEvent(c2s)
	n.Sim.AddEvent(s2c)
	if l.closed {
		cl.Reset()
		return cl
	}
	l.queue = append(l.queue, sv)
	simrt.Wake(&l.q)
	return cl
}

// Peer returns the other end (harness inspection only).
func (c *Conn) Peer() *Conn { return c.peer }

// ---- outgoing datagrams (tracker registration) ----

// Datagram is one UDP datagram the server sent.
type Datagram struct {
	To      string
	Payload []byte
	At      time.Duration
}

// Out, when set by a scenario, receives every datagram written to a connection made by DialOut.  While it is nil the
// simulated host has no route: DialOut fails, as a dial does on a machine without network.
var Out func(d Datagram)

type dgramConn struct {
	to     string
	closed bool
}

// DialOut replaces net.Dial in the instrumented server (simify).  Only "udp" exists; every Write is one datagram.
func DialOut(network, address string) (net.Conn, error) {
	simrt.Yield("dial")
	if network != "udp" || Out == nil {
		return nil, fmt.Errorf("dial %s %s: network is unreachable", network, address)
	}
	if _, _, err := net.SplitHostPort(address); err != nil {
		return nil, fmt.Errorf("dial %s %s: %w", network, address, err)
	}
	return &dgramConn{to: address}, nil
}

func (c *dgramConn) Write(b []byte) (int, error) {
	simrt.Yield("sendto")
	if c.closed {
		return 0, net.ErrClosed
	}
	if f := Out; f != nil {
		f(Datagram{To: c.to, Payload: append([]byte{}, b...)})
	}
	return len(b), nil
}
func (c *dgramConn) Read(b []byte) (int, error)         { return 0, io.EOF }
func (c *dgramConn) Close() error                       { c.closed = true; return nil }
func (c *dgramConn) LocalAddr() net.Addr                { return dgramAddr("local") }
func (c *dgramConn) RemoteAddr() net.Addr               { return dgramAddr(c.to) }
func (c *dgramConn) SetDeadline(t time.Time) error      { return nil }
func (c *dgramConn) SetReadDeadline(t time.Time) error  { return nil }
func (c *dgramConn) SetWriteDeadline(t time.Time) error { return nil }

type dgramAddr string

func (a dgramAddr) Network() string { return "udp" }
func (a dgramAddr) String() string  { return string(a) }
