// simify rewrites a scratch copy of jhalter/mobius so that every source of
// nondeterminism goes through the simulator packages under verifsim/.
//
// usage: simify <module-root-of-scratch-copy>
//
// It is purely syntactic (go/ast); see DESIGN.md §2.1.
package main

import (
	"bytes"
	"fmt"
	"go/ast"
	"go/parser"
	"go/printer"
	"go/token"
	"os"
	"path/filepath"
	"strconv"
	"strings"
)

const modPath = "github.com/jhalter/mobius"
const simBase = modPath + "/verifsim/"

var pkgs = []string{"hotline", "internal/mobius"}

// os functions rewritten to simfs in internal/mobius (the persistent stores).
var fsFuncs = map[string]bool{
	"WriteFile": true, "Rename": true, "Remove": true, "OpenFile": true, "Create": true,
	"ReadFile": true, "Open": true, "Mkdir": true, "MkdirAll": true, "RemoveAll": true,
}

func main() {
	if len(os.Args) != 2 {
		fmt.Fprintln(os.Stderr, "usage: simify <root>")
		os.Exit(2)
	}
	root := os.Args[1]
	n := 0
	for _, p := range pkgs {
		dir := filepath.Join(root, p)
		ents, err := os.ReadDir(dir)
		if err != nil {
			fatal(err)
		}
		for _, e := range ents {
			name := e.Name()
			if e.IsDir() || !strings.HasSuffix(name, ".go") {
				continue
			}
			full := filepath.Join(dir, name)
			if strings.HasSuffix(name, "_test.go") {
				// the repository's own tests are not part of the simulation (DESIGN §2.1)
				if err := os.Remove(full); err != nil {
					fatal(err)
				}
				continue
			}
			if err := rewriteFile(full, p); err != nil {
				fatal(fmt.Errorf("%s: %w", full, err))
			}
			n++
		}
	}
	fmt.Printf("simify: rewrote %d files\n", n)
}

func fatal(err error) {
	fmt.Fprintln(os.Stderr, "simify:", err)
	os.Exit(2)
}

type rewriter struct {
	fset     *token.FileSet
	file     *ast.File
	pkg      string
	relname  string
	usedRT   bool
	usedFS   bool
	osName   string // local name of package "os" ("" if not imported)
	timeName string
	mapFlds  map[string]bool // names of struct fields of map type declared in this package
}

func rewriteFile(path, pkg string) error {
	fset := token.NewFileSet()
	f, err := parser.ParseFile(fset, path, nil, parser.ParseComments)
	if err != nil {
		return err
	}
	rw := &rewriter{fset: fset, file: f, pkg: pkg, relname: pkg + "/" + filepath.Base(path)}

	for _, imp := range f.Imports {
		p, _ := strconv.Unquote(imp.Path.Value)
		local := filepath.Base(p)
		if imp.Name != nil {
			local = imp.Name.Name
		}
		switch p {
		case "sync":
			imp.Path.Value = strconv.Quote(simBase + "simsync")
			if imp.Name == nil {
				imp.Name = ast.NewIdent("sync")
			}
		case "math/rand", "crypto/rand":
			imp.Path.Value = strconv.Quote(simBase + "simrand")
			if imp.Name == nil {
				imp.Name = ast.NewIdent("rand")
			}
		case "os":
			rw.osName = local
		case "time":
			rw.timeName = local
		}
	}

	// rewrite statement lists everywhere
	ast.Inspect(f, func(n ast.Node) bool {
		switch x := n.(type) {
		case *ast.BlockStmt:
			x.List = rw.stmts(x.List)
		case *ast.CaseClause:
			x.Body = rw.stmts(x.Body)
		case *ast.CommClause:
			x.Body = rw.stmts(x.Body)
			if x.Comm != nil { // not the default clause
				x.Body = append([]ast.Stmt{rw.yieldStmt("select")}, x.Body...)
			}
		}
		return true
	})

	// expression-level call rewrites
	ast.Inspect(f, func(n ast.Node) bool {
		call, ok := n.(*ast.CallExpr)
		if !ok {
			return true
		}
		sel, ok := call.Fun.(*ast.SelectorExpr)
		if !ok {
			return true
		}
		id, ok := sel.X.(*ast.Ident)
		if !ok || id.Obj != nil { // id.Obj != nil: a local object shadows the package name
			return true
		}
		if rw.timeName != "" && id.Name == rw.timeName && sel.Sel.Name == "Sleep" {
			sel.X = ast.NewIdent("simrt")
			rw.usedRT = true
		}
		if rw.pkg == "internal/mobius" && rw.osName != "" && id.Name == rw.osName && fsFuncs[sel.Sel.Name] {
			sel.X = ast.NewIdent("simfs")
			rw.usedFS = true
		}
		return true
	})

	if rw.usedRT {
		addImport(f, "simrt", simBase+"simrt")
	}
	if rw.usedFS {
		addImport(f, "simfs", simBase+"simfs")
	}

	var buf bytes.Buffer
	if err := printer.Fprint(&buf, fset, f); err != nil {
		return err
	}
	out := buf.Bytes()
	// an import that is no longer used (os, time) would break the build: keep them alive
	var keep []string
	if rw.osName != "" && rw.osName != "_" && rw.osName != "." {
		keep = append(keep, "var _ = "+rw.osName+".Getpid")
	}
	if rw.timeName != "" && rw.timeName != "_" && rw.timeName != "." {
		keep = append(keep, "var _ = "+rw.timeName+".Now")
	}
	if len(keep) > 0 {
		out = append(out, []byte("\n"+strings.Join(keep, "\n")+"\n")...)
	}
	return os.WriteFile(path, out, 0644)
}

func addImport(f *ast.File, name, path string) {
	spec := &ast.ImportSpec{Name: ast.NewIdent(name), Path: &ast.BasicLit{Kind: token.STRING, Value: strconv.Quote(path)}}
	decl := &ast.GenDecl{Tok: token.IMPORT, Specs: []ast.Spec{spec}}
	f.Decls = append([]ast.Decl{decl}, f.Decls...)
	f.Imports = append(f.Imports, spec)
}

func (rw *rewriter) yieldStmt(kind string) ast.Stmt {
	rw.usedRT = true
	return &ast.ExprStmt{X: &ast.CallExpr{
		Fun:  &ast.SelectorExpr{X: ast.NewIdent("simrt"), Sel: ast.NewIdent("Yield")},
		Args: []ast.Expr{&ast.BasicLit{Kind: token.STRING, Value: strconv.Quote(kind)}},
	}}
}

func (rw *rewriter) callStmt(fn string) ast.Stmt {
	rw.usedRT = true
	return &ast.ExprStmt{X: &ast.CallExpr{Fun: &ast.SelectorExpr{X: ast.NewIdent("simrt"), Sel: ast.NewIdent(fn)}}}
}

// hasChanOp reports whether a simple statement performs a channel send or receive
// outside of nested function literals.
func hasChanOp(s ast.Stmt) bool {
	found := false
	ast.Inspect(s, func(n ast.Node) bool {
		switch x := n.(type) {
		case *ast.FuncLit:
			return false
		case *ast.SendStmt:
			found = true
		case *ast.UnaryExpr:
			if x.Op == token.ARROW {
				found = true
			}
		}
		return !found
	})
	return found
}

func (rw *rewriter) pos(n ast.Node) string {
	p := rw.fset.Position(n.Pos())
	return fmt.Sprintf("%s:%d", rw.relname, p.Line)
}

func (rw *rewriter) stmts(list []ast.Stmt) []ast.Stmt {
	var out []ast.Stmt
	for _, s := range list {
		switch x := s.(type) {
		case *ast.GoStmt:
			// defer simrt.GoStart()() as first statement of the goroutine body
			startDefer := &ast.DeferStmt{Call: &ast.CallExpr{Fun: &ast.CallExpr{
				Fun: &ast.SelectorExpr{X: ast.NewIdent("simrt"), Sel: ast.NewIdent("GoStart")},
			}}}
			rw.usedRT = true
			if lit, ok := x.Call.Fun.(*ast.FuncLit); ok {
				lit.Body.List = append([]ast.Stmt{startDefer}, lit.Body.List...)
			} else {
				// go f(x)  =>  go func(){ defer simrt.GoStart()(); f(x) }()
				inner := &ast.ExprStmt{X: x.Call}
				x.Call = &ast.CallExpr{Fun: &ast.FuncLit{
					Type: &ast.FuncType{Params: &ast.FieldList{}},
					Body: &ast.BlockStmt{List: []ast.Stmt{startDefer, inner}},
				}}
			}
			out = append(out, rw.callStmt("PreGo"), x, rw.callStmt("PostGo"))
		case *ast.ExprStmt, *ast.AssignStmt, *ast.SendStmt, *ast.DeclStmt, *ast.IncDecStmt:
			out = append(out, s)
			if hasChanOp(s) {
				out = append(out, rw.yieldStmt("chan"))
			}
		default:
			out = append(out, s)
		}
	}
	return out
}
