package harness

import (
	"bytes"
	"fmt"
	"math/rand"
	"os"
	"path/filepath"
	"regexp"
	"sort"
	"strings"

	rp "github.com/jhalter/mobius/verifsim/refproto"
	"github.com/jhalter/mobius/verifsim/simnet"
)

// C02: segmentation-independent parsing of client byte streams (DESIGN §6 C02).
//
// One case = one well-formed client session (control connection + transfer connections).
// The session is executed twice in the same bubble: once with every Write delivered whole
// (baseline) and once under the case's segmentation policy / short reads / scheduler policy.
// Oracle: (a) the baseline matches what the protocol says must happen (every request
// answered without error, uploads stored exactly, downloads exact) and (b) the normalised
// outcome of the segmented execution equals the baseline's.

var reNewsDate = regexp.MustCompile(`\([A-Z][a-z]{2}\d\d \d\d:\d\d\)`)

type c02Outcome struct {
	Replies  []string // per op, normalised
	Inbox    []string // sorted multiset of non-reply transactions
	Disk     map[string]string
	LoggedIn bool
	Closed   bool
	FrameErr string
}

func normFields(t rp.Tran) string {
	var sb strings.Builder
	fmt.Fprintf(&sb, "type=%d reply=%d err=%d", t.Type, t.IsReply, t.Err)
	for _, f := range t.Fields {
		d := f.Data
		switch f.ID {
		case rp.FRefNum, rp.FChatID, rp.FFileCreateDate, rp.FFileModifyDate, rp.FNewsArtDate:
			d = bytes.Repeat([]byte{'#'}, len(d))
		case rp.FData:
			d = reNewsDate.ReplaceAll(d, []byte("(DATE)"))
		}
		if len(d) > 64 {
			fmt.Fprintf(&sb, " %d:[%d bytes fnv %x]", f.ID, len(d), fnv64(d))
		} else {
			fmt.Fprintf(&sb, " %d:%q", f.ID, d)
		}
	}
	return sb.String()
}

func fnv64(b []byte) uint64 {
	h := uint64(14695981039346656037)
	for _, c := range b {
		h = (h ^ uint64(c)) * 1099511628211
	}
	return h
}

// maskFFODates blanks the create/modify dates inside a flattened-file stream.
func maskFFODates(s []byte) []byte {
	o := append([]byte{}, s...)
	if len(o) >= 24+16+68 && string(o[:4]) == "FILP" {
		for i := 24 + 16 + 52; i < 24+16+68; i++ {
			o[i] = '#'
		}
	}
	return o
}

func genC02(rng *rand.Rand, c *Case) {
	// segmentation of the variant execution
	c.Cfg["seg_c2s"] = 1 + rng.Intn(4) // random, byte, mss, script
	c.Cfg["mss"] = 1 + rng.Intn(40)
	c.Cfg["shortreads"] = rng.Intn(2)
	c.Cfg["policy"] = rng.Intn(3)
	c.Cfg["flavour"] = rng.Intn(2) // 0: 1.5+ login (agreed), 1: 1.2.3 login (name in login)
	c.Cfg["forks"] = rng.Intn(2)
	// variant execution: 1 handshake and login leave the client in one write; 2 handshake, login, agreed and two
	// more requests do
	c.Cfg["coalesce"] = rng.Intn(3)
	byteMode := c.Cfg["seg_c2s"] == int(simnet.SegByte)
	maxPayload := 62000
	if byteMode {
		maxPayload = 2500
		if c.Tier == "thorough" && rng.Intn(10) == 0 {
			maxPayload = 62000
		}
	}
	size := func() int {
		switch rng.Intn(6) {
		case 0:
			return 0
		case 1:
			return 1 + rng.Intn(16)
		case 2:
			return 4090 + rng.Intn(12) // around the scanner's 4 KiB start buffer
		case 3:
			return min(maxPayload, 8180+rng.Intn(24))
		case 4:
			return min(maxPayload, 32760+rng.Intn(16))
		}
		return rng.Intn(maxPayload + 1)
	}
	text := func(n int) string {
		b := make([]byte, n)
		for i := range b {
			b[i] = byte('a' + rng.Intn(26))
		}
		return string(b)
	}
	n := 3 + rng.Intn(10)
	files := []string{"seed.txt"}
	for i := 0; i < n; i++ {
		switch rng.Intn(11) {
		case 0:
			c.Ops = append(c.Ops, Op{K: "chat", S: []string{text(min(size(), 9000))}})
		case 1:
			c.Ops = append(c.Ops, Op{K: "postnews", S: []string{text(size())}})
		case 2:
			c.Ops = append(c.Ops, Op{K: "getmsgs"})
		case 3:
			c.Ops = append(c.Ops, Op{K: "userlist"})
		case 4:
			c.Ops = append(c.Ops, Op{K: "filelist"})
		case 5:
			c.Ops = append(c.Ops, Op{K: "newfolder", S: []string{fmt.Sprintf("dir%d", i)}})
		case 6, 7:
			name := fmt.Sprintf("up%d.bin", i)
			fs := size()
			if rng.Intn(4) == 0 && !byteMode && !(c.Cfg["seg_c2s"] == int(simnet.SegMSS) && c.Cfg["mss"] < 8) {
				fs = 100000 + rng.Intn(200000)
			}
			c.Ops = append(c.Ops, Op{K: "upload", S: []string{name}, N: []int{fs, rng.Intn(1 << 30), rng.Intn(2), rng.Intn(300)}})
			files = append(files, name)
		case 8:
			c.Ops = append(c.Ops, Op{K: "download", S: []string{files[rng.Intn(len(files))]}})
		case 9:
			if rng.Intn(2) == 0 {
				// two changes of the user's own options back to back: every client is told each state in turn
				c.Ops = append(c.Ops, Op{K: "opts2", N: []int{1 + rng.Intn(3), rng.Intn(2) * (1 + rng.Intn(3))}})
				break
			}
			c.Ops = append(c.Ops, Op{K: "pipe", N: []int{2 + rng.Intn(4)}})
		case 10:
			c.Ops = append(c.Ops, Op{K: "fileinfo", S: []string{files[rng.Intn(len(files))]}})
		}
	}
	// the step cap grows with the number of segments the variant execution has to deliver, so that a cap hit
	// means "no progress", not "long session"
	segSize := 64
	switch c.Cfg["seg_c2s"] {
	case int(simnet.SegByte):
		segSize = 1
	case int(simnet.SegMSS):
		segSize = c.Cfg["mss"]
	}
	total := 0
	for _, op := range c.Ops {
		if op.K == "upload" {
			total += op.N[0]
		}
		for _, t := range op.S {
			total += len(t)
		}
	}
	c.Cfg["maxsteps"] = 400000 + 8*total/segSize
	// scripted cut points around fixed-size header boundaries
	if c.Cfg["seg_c2s"] == int(simnet.SegScript) {
		cand := []int{1, 2, 3, 4, 5, 7, 8, 11, 12, 13, 15, 16, 17, 19, 20, 21, 22, 23, 24, 25, 39, 40, 41}
		k := 1 + rng.Intn(8)
		var sc []int
		for i := 0; i < k; i++ {
			sc = append(sc, cand[rng.Intn(len(cand))])
		}
		c.Ops = append(c.Ops, Op{K: "script", N: sc})
	}
}

func c02Session(w *World, variant bool) *c02Outcome {
	out := &c02Outcome{}
	w.AddAccount("guest", "Guest User", "", rp.AllAccess().Without(rp.PNoAgreement))
	must(os.WriteFile(filepath.Join(w.FileRoot, "seed.txt"), GenData(77, 5000), 0644))
	w.StartServer()
	if variant {
		for _, op := range w.Case.Ops {
			if op.K == "script" {
				// every connection of this run gets the scripted cut list
				w.Net.C2S = simnet.SegScript
			}
		}
	}
	script := []int(nil)
	for _, op := range w.Case.Ops {
		if op.K == "script" {
			script = op.N
		}
	}
	applyScript := func(x *simnet.Conn) {
		if variant && x != nil && w.Net.C2S == simnet.SegScript {
			x.SetSeg(simnet.SegScript, 0, append([]int{}, script...))
		}
	}
	c := w.NewClient("tester", "10.1.0.1")
	uploaded := map[string][]byte{"seed.txt": GenData(77, 5000)}
	w.Sim.Go("c0", true, func() {
		c.Connect()
		applyScript(c.Conn)
		login := c.Login
		if variant && w.Case.Cfg["coalesce"] == 1 {
			login = c.LoginCoalesced
			w.Probe("handshake_and_login_coalesced")
		}
		burst := variant && w.Case.Cfg["coalesce"] == 2
		if burst {
			w.Probe("login_burst_in_one_write")
		}
		if burst && w.Case.Cfg["flavour"] == 1 {
			out.LoggedIn = c.LoginBurst("guest", "", "tester", 7)
		} else if burst {
			out.LoggedIn = c.LoginBurst("guest", "", "", 7)
		} else if w.Case.Cfg["flavour"] == 1 {
			out.LoggedIn = login("guest", "", "tester", 7)
		} else {
			out.LoggedIn = login("guest", "", "", 0)
			if out.LoggedIn {
				out.LoggedIn = c.Agree("tester", 7, 0, "")
			}
		}
		if !out.LoggedIn {
			return
		}
		for i, op := range w.Case.Ops {
			var rep rp.Tran
			var ok bool
			extra := ""
			switch op.K {
			case "chat":
				// chat has no reply; the echo arrives as a chat-message transaction
				before := len(c.InboxOf(rp.TChatMsg))
				c.Request(rp.TChatSend, rp.FS(rp.FData, op.S[0]))
				ok = c.WaitFor(func() bool { return len(c.InboxOf(rp.TChatMsg)) > before }, defTimeout)
				rep = rp.Tran{}
			case "postnews":
				rep, ok = c.Do(rp.TOldPostNews, rp.FS(rp.FData, op.S[0]))
			case "getmsgs":
				rep, ok = c.Do(rp.TGetMsgs)
			case "userlist":
				rep, ok = c.Do(rp.TGetUserNameList)
			case "filelist":
				rep, ok = c.Do(rp.TGetFileNameList)
			case "newfolder":
				rep, ok = c.Do(rp.TNewFolder, rp.FS(rp.FFileName, op.S[0]))
			case "fileinfo":
				rep, ok = c.Do(rp.TGetFileInfo, rp.FS(rp.FFileName, op.S[0]))
				if _, exists := uploaded[op.S[0]]; !exists {
					ok = true // file may legitimately not exist (upload op removed by minimisation)
				}
			case "keepalive":
				rep, ok = c.Do(rp.TKeepAlive)
			case "pipe":
				// several requests coalesced into a single write
				var buf []byte
				var ids []uint32
				for k := 0; k < op.N[0]; k++ {
					id := c.nextID
					c.nextID++
					typ := []uint16{rp.TKeepAlive, rp.TGetUserNameList, rp.TGetMsgs}[k%3]
					t := rp.Tran{Type: typ, ID: id}
					c.Sent[id] = typ
					buf = append(buf, t.Encode()...)
					ids = append(ids, id)
				}
				_ = c.SendRaw(buf)
				ok = true
				for _, id := range ids {
					r, got := c.Reply(id, defTimeout)
					ok = ok && got && r.Err == 0
					extra += normFields(r) + "|"
				}
			case "opts2":
				mk := func(o, icon int) rp.Tran {
					id := c.nextID
					c.nextID++
					c.Sent[id] = rp.TSetClientUserInfo
					return rp.Tran{Type: rp.TSetClientUserInfo, ID: id, Fields: []rp.Field{rp.FS(rp.FUserName, "tester"), rp.F16(rp.FUserIconID, uint16(icon)), rp.F16(rp.FOptions, uint16(o))}}
				}
				t1, t2 := mk(op.N[0], 100+i), mk(op.N[1], 200+i)
				if variant {
					_ = c.SendRaw(append(t1.Encode(), t2.Encode()...))
				} else {
					_ = c.SendRaw(t1.Encode())
					c.Do(rp.TKeepAlive)
					SettleShort()
					_ = c.SendRaw(t2.Encode())
				}
				rep, ok = c.Do(rp.TKeepAlive)
				SettleShort()
			case "upload":
				data := GenData(int64(op.N[1]), op.N[0])
				withRsrc := op.N[2] == 1
				rsrc := GenData(int64(op.N[1])+1, op.N[3])
				if _, dup := uploaded[op.S[0]]; dup {
					ok = true
					break
				}
				ref, _, r, got := c.UploadReq(nil, op.S[0], uint32(len(data)), false)
				rep, ok = r, got
				if got {
					stream := UploadStream(ref, op.S[0], data, rsrc, withRsrc, "")
					x := c.DialXfer()
					applyScript(x)
					if x != nil {
						_, _ = x.Write(stream)
						c.waitClose(x, 20e9)
						_ = x.Close()
					}
					uploaded[op.S[0]] = data
					got, err := os.ReadFile(filepath.Join(w.FileRoot, op.S[0]))
					if err != nil || !bytes.Equal(got, data) {
						extra = fmt.Sprintf("UPLOAD-MISMATCH err=%v len=%d want=%d", err, len(got), len(data))
						if !variant {
							w.Violate("c02-baseline-upload", "baseline: uploaded file %s differs: %s", op.S[0], extra)
						}
					}
				}
			case "download":
				want, exists := uploaded[op.S[0]]
				if !exists {
					ok = true
					break
				}
				res := c.downloadWith(op.S[0], applyScript)
				rep, ok = res.Reply, res.OK
				extra = fmt.Sprintf("xfer=%d file=%d stream=%x", res.XferSize, res.FileSize, fnv64(maskFFODates(res.Stream)))
				if res.OK && !bytes.Contains(res.Stream, want) {
					extra += " DATA-MISSING"
					if !variant {
						w.Violate("c02-baseline-download", "baseline: download of %s does not contain the file data", op.S[0])
					}
				}
			case "script":
				ok = true
			}
			if !ok && !variant && c.FrameErr == nil {
				w.Violate("c02-baseline-unanswered", "baseline: op %d (%s) was not answered", i, op.K)
			}
			if ok && rep.Err != 0 && !variant {
				w.Violate("c02-baseline-error", "baseline: op %d (%s) answered with error %q", i, op.K, fieldStr(rep, rp.FError))
			}
			out.Replies = append(out.Replies, fmt.Sprintf("%s ok=%v %s %s", op.K, ok, normFields(rep), extra))
			if c.Closed {
				break
			}
		}
	})
	w.Sim.Run()
	out.Closed = c.Closed
	if c.FrameErr != nil {
		out.FrameErr = c.FrameErr.Error()
	}
	for _, r := range c.Inbox {
		out.Inbox = append(out.Inbox, normFields(r.T))
	}
	sort.Strings(out.Inbox)
	out.Disk = SnapshotTree(w.Sandbox)
	for k, v := range out.Disk {
		out.Disk[k] = reNewsDate.ReplaceAllString(v, "(DATE)")
	}
	return out
}

func fieldStr(t rp.Tran, id uint16) string {
	d, _ := t.Get(id)
	return string(d)
}

// downloadWith is Download with a hook to configure the transfer connection.
func (c *Client) downloadWith(name string, hook func(*simnet.Conn)) DownloadResult {
	var res DownloadResult
	rep, ok := c.Do(rp.TDownloadFile, rp.FS(rp.FFileName, name))
	res.Reply = rep
	if !ok || rep.Err != 0 {
		return res
	}
	ref, _ := rep.Get(rp.FRefNum)
	xs, _ := rep.Get(rp.FTransferSize)
	fs, _ := rep.Get(rp.FFileSize)
	if v, ok := rp.Int(xs); ok {
		res.XferSize = uint32(v)
	}
	if v, ok := rp.Int(fs); ok {
		res.FileSize = uint32(v)
	}
	x := c.DialXfer()
	if x == nil || len(ref) != 4 {
		return res
	}
	hook(x)
	_, _ = x.Write(rp.XferPreamble(ref, 0))
	res.Stream, res.Err = ReadAllXfer(x, 30e9)
	_ = x.Close()
	res.OK = true
	return res
}

func runC02(w *World) {
	base := c02Session(w, false)
	if !base.LoggedIn {
		w.Violate("c02-baseline-login", "baseline session (every write delivered whole) could not log in")
	}
	// variant execution under the generated segmentation
	w.Reset(nil)
	w.Net.ShortReads = w.Case.Cfg["shortreads"] != 0
	v := c02Session(w, true)
	w.Probe(fmt.Sprintf("seg_policy_%d", w.Case.Cfg["seg_c2s"]))
	// baseline sub-run uses whole segments + FIFO: re-run is done first with overrides below
	if !v.LoggedIn && base.LoggedIn {
		w.Violate("c02-login-depends-on-segmentation", "login succeeds when delivered whole but fails under segmentation policy %d (mss %d, shortreads %d)", w.Case.Cfg["seg_c2s"], w.Case.Cfg["mss"], w.Case.Cfg["shortreads"])
		return
	}
	if v.FrameErr != base.FrameErr {
		w.Violate("c02-frame-error", "server output malformed under segmentation: %q vs baseline %q", v.FrameErr, base.FrameErr)
	}
	for i := range base.Replies {
		if i >= len(v.Replies) {
			w.Violate("c02-session-cut-short", "segmented session ended after %d of %d ops (connection closed=%v)", len(v.Replies), len(base.Replies), v.Closed)
			break
		}
		if base.Replies[i] != v.Replies[i] {
			kind := strings.SplitN(base.Replies[i], " ", 2)[0]
			w.Violate("c02-reply-differs-"+kind, "op %d: baseline %.300s | segmented %.300s", i, base.Replies[i], v.Replies[i])
			break
		}
	}
	if strings.Join(base.Inbox, "\n") != strings.Join(v.Inbox, "\n") {
		w.Violate("c02-inbox-differs", "server-initiated transactions differ: baseline %d, segmented %d", len(base.Inbox), len(v.Inbox))
	}
	if d := DiffTrees(base.Disk, v.Disk); len(d) > 0 {
		w.Violate("c02-disk-differs", "server state on disk differs between baseline and segmented execution: %v", d[:min(len(d), 6)])
	}
}

func init() {
	Register(&Scenario{ID: "C02", Gen: genC02, Run: func(w *World) {
		// the first sub-run is the baseline: whole segments, FIFO schedule, no short reads
		w.Reset(map[string]int{"seg_c2s": 0, "shortreads": 0, "policy": 3})
		runC02(w)
	}})
}
