package harness

import (
	"encoding/binary"
	"fmt"
	"math/rand"
	"os"
	"path/filepath"
	"sort"
	"strings"

	"github.com/jhalter/mobius/hotline"
	"github.com/jhalter/mobius/internal/mobius"
	rp "github.com/jhalter/mobius/verifsim/refproto"
	"github.com/jhalter/mobius/verifsim/simrt"
)

// C18: threaded news keeps every article and threads new ones correctly (DESIGN §6 C18).

type newsArt struct {
	Title, Poster, Body string
	Date                string
	Parent, Prev, Next  uint32
}

type newsNode struct {
	Bundle   bool
	Children map[string]*newsNode // bundles only
	Arts     map[uint32]*newsArt  // categories only
}

func (n *newsNode) at(path []string) *newsNode {
	cur := n
	for _, p := range path {
		if cur == nil || !cur.Bundle {
			return nil
		}
		cur = cur.Children[p]
	}
	return cur
}

// listArtRec is one decoded record of an article list.
type listArtRec struct {
	ID, Parent uint32
	Title      string
	Poster     string
	Size       int
}

// decodeArtList strictly decodes field 321 (news article list data).
func decodeArtList(b []byte) ([]listArtRec, error) {
	if len(b) < 10 {
		return nil, fmt.Errorf("article list of %d bytes", len(b))
	}
	cnt := int(binary.BigEndian.Uint32(b[4:8]))
	p := b[8:]
	for i := 0; i < 2; i++ { // name, description
		if len(p) < 1 || len(p) < 1+int(p[0]) {
			return nil, fmt.Errorf("article list: name/description truncated")
		}
		p = p[1+int(p[0]):]
	}
	var out []listArtRec
	for i := 0; i < cnt; i++ {
		if len(p) < 22 {
			return nil, fmt.Errorf("article list: record %d of %d: only %d bytes left", i, cnt, len(p))
		}
		r := listArtRec{ID: binary.BigEndian.Uint32(p[0:4]), Parent: binary.BigEndian.Uint32(p[12:16])}
		flavors := int(binary.BigEndian.Uint16(p[20:22]))
		p = p[22:]
		for k := 0; k < 2; k++ {
			if len(p) < 1 || len(p) < 1+int(p[0]) {
				return nil, fmt.Errorf("article list: record %d (id %d): title/poster length exceeds the remaining %d bytes", i, r.ID, len(p))
			}
			s := string(p[1 : 1+int(p[0])])
			if k == 0 {
				r.Title = s
			} else {
				r.Poster = s
			}
			p = p[1+int(p[0]):]
		}
		for f := 0; f < flavors; f++ {
			if len(p) < 1 || len(p) < 1+int(p[0])+2 {
				return nil, fmt.Errorf("article list: record %d (id %d): flavor %d truncated (%d bytes left)", i, r.ID, f, len(p))
			}
			if fl := string(p[1 : 1+int(p[0])]); fl != "text/plain" {
				return nil, fmt.Errorf("article list: record %d (id %d): flavor %q", i, r.ID, fl)
			}
			r.Size = int(binary.BigEndian.Uint16(p[1+int(p[0]):]))
			p = p[1+int(p[0])+2:]
		}
		out = append(out, r)
	}
	if len(p) != 0 {
		return nil, fmt.Errorf("article list: %d trailing bytes after %d records", len(p), cnt)
	}
	return out, nil
}

// decodeCatEntry strictly decodes field 323 (news category list data, 1.5 format).
func decodeCatEntry(b []byte) (name string, bundle bool, count int, err error) {
	if len(b) < 5 {
		return "", false, 0, fmt.Errorf("category entry of %d bytes", len(b))
	}
	typ := binary.BigEndian.Uint16(b[0:2])
	count = int(binary.BigEndian.Uint16(b[2:4]))
	p := b[4:]
	switch typ {
	case 2:
		bundle = true
	case 3:
		if len(p) < 24 {
			return "", false, 0, fmt.Errorf("category entry: GUID/serials truncated")
		}
		p = p[24:]
	default:
		return "", false, 0, fmt.Errorf("category entry type %d", typ)
	}
	if len(p) < 1 || len(p) != 1+int(p[0]) {
		return "", false, 0, fmt.Errorf("category entry: name length %d but %d bytes follow", p[0], len(p)-1)
	}
	return string(p[1:]), bundle, count, nil
}

var c18Names = []string{"General", "Mac Stuff", "a", "caf\x8e", "With:Colon", "News & Views", "x y z", "UPPER", "123", "d\x9fsseldorf"}

func genC18(rng *rand.Rand, c *Case) {
	c.Cfg["policy"] = 3
	// the operator reloads the configuration (SIGHUP / admin API) while requests are in flight
	c.Cfg["reloads"] = rng.Intn(2)
	if c.Cfg["reloads"] == 1 {
		c.Cfg["policy"] = rng.Intn(3)
	}
	c.Cfg["posterlen"] = []int{1, 12, 31, 200, 255}[rng.Intn(5)]
	n := 6 + rng.Intn(30)
	for i := 0; i < n; i++ {
		k := []string{"bundle", "category", "post", "post", "post", "reply", "reply", "delart", "delitem", "restart", "category", "stale", "stale", "awayreload"}[rng.Intn(14)]
		tl := []int{0, 1, 20, 200, 255}[rng.Intn(5)]
		bl := []int{0, 1, 100, 5000, 64000}[rng.Intn(5)]
		c.Ops = append(c.Ops, Op{K: k, N: []int{rng.Intn(1 << 20), rng.Intn(1 << 20), tl, bl}})
	}
}

func runC18(w *World) {
	cfg := w.Case.Cfg
	w.AddAccount("guest", "Guest", "", rp.AllAccess().With(rp.PNoAgreement))
	w.StartServer()
	root := &newsNode{Bundle: true, Children: map[string]*newsNode{}}
	poster := "P" + strings.Repeat("o", cfg["posterlen"]-1)
	newsFile := filepath.Join(w.ConfigDir, "ThreadedNews.yaml")
	var c *Client
	seq := 0
	login := func() bool {
		seq++
		c = w.NewClient(poster, fmt.Sprintf("10.1.%d.%d", seq/250, seq%250+1))
		return c.Login("guest", "", poster, 1)
	}
	// all container paths
	var paths func(n *newsNode, p []string, bundles, cats *[][]string)
	paths = func(n *newsNode, p []string, bundles, cats *[][]string) {
		if n.Bundle {
			*bundles = append(*bundles, append([]string{}, p...))
			var ks []string
			for k := range n.Children {
				ks = append(ks, k)
			}
			sort.Strings(ks)
			for _, k := range ks {
				paths(n.Children[k], append(append([]string{}, p...), k), bundles, cats)
			}
		} else {
			*cats = append(*cats, append([]string{}, p...))
		}
	}

	checkCats := func(path []string, when string) bool {
		n := root.at(path)
		rep, ok := c.ListCategories(path)
		if !ok || rep.Err != 0 {
			w.Violate("c18-category-list-unanswered", "%s: category list of %q not answered", when, path)
			return false
		}
		got := map[string]bool{}
		for _, raw := range rep.GetAll(rp.FNewsCatListData15) {
			name, bundle, count, err := decodeCatEntry(raw)
			if err != nil {
				w.Violate("c18-category-entry-malformed", "%s: %v", when, err)
				return false
			}
			ch := n.Children[name]
			if ch == nil {
				w.Violate("c18-phantom-category", "%s: category list of %q shows %q, which is not a child of that path", when, path, name)
				return false
			}
			wantCount := len(ch.Arts) + len(ch.Children)
			if got[name] || bundle != ch.Bundle || count != wantCount {
				w.Violate("c18-category-entry-differs", "%s: %q listed as bundle=%v count=%d (twice=%v), want bundle=%v count=%d", when, name, bundle, count, got[name], ch.Bundle, wantCount)
				return false
			}
			got[name] = true
		}
		for name := range n.Children {
			if !got[name] {
				w.Violate("c18-category-not-listed", "%s: %q is a child of %q but is not listed", when, name, path)
				return false
			}
		}
		return true
	}
	listSeq := 0
	checkArts := func(path []string, when string) bool {
		n := root.at(path)
		listSeq++
		if cfg["reloads"] == 1 && listSeq%3 == 0 {
			w.ReloadDuring(listSeq % 17) // a reload while somebody lists: the listing is still answered, and whole
		}
		rep, ok := c.ListArticles(path)
		if !ok || rep.Err != 0 {
			w.Violate("c18-article-list-unanswered", "%s: article list of %q not answered", when, path)
			return false
		}
		raw, _ := rep.Get(rp.FNewsArtListData)
		recs, err := decodeArtList(raw)
		if err != nil {
			w.Violate("c18-article-list-unparseable", "%s: %q: %v", when, path, err)
			return false
		}
		if len(recs) != len(n.Arts) {
			w.Violate("c18-article-list-count", "%s: %q lists %d articles, %d are present", when, path, len(recs), len(n.Arts))
			return false
		}
		prev := uint32(0)
		for i, r := range recs {
			a := n.Arts[r.ID]
			if a == nil || (i > 0 && r.ID <= prev) {
				w.Violate("c18-article-list-order-or-phantom", "%s: record %d has id %d (previous %d, present=%v)", when, i, r.ID, prev, a != nil)
				return false
			}
			prev = r.ID
			if r.Title != a.Title || r.Poster != a.Poster || r.Parent != a.Parent || r.Size != len(a.Body) {
				w.Violate("c18-article-list-record-differs", "%s: article %d listed with title %s poster %s parent %d size %d, want %s %s %d %d", when, r.ID, Short([]byte(r.Title)), Short([]byte(r.Poster)), r.Parent, r.Size, Short([]byte(a.Title)), Short([]byte(a.Poster)), a.Parent, len(a.Body))
				return false
			}
		}
		// every article retrievable unchanged (in id order: request order must not depend on map iteration)
		var aids []int
		for id := range n.Arts {
			aids = append(aids, int(id))
		}
		sort.Ints(aids)
		for _, iid := range aids {
			id := uint32(iid)
			a := n.Arts[id]
			rep, ok := c.GetArticle(path, id)
			if !ok || rep.Err != 0 {
				w.Violate("c18-article-unanswered", "%s: article %d not answered", when, id)
				return false
			}
			g := func(f uint16) string { d, _ := rep.Get(f); return string(d) }
			if g(rp.FNewsArtTitle) != a.Title || g(rp.FNewsArtPoster) != a.Poster || g(rp.FNewsArtData) != a.Body {
				w.Violate("c18-article-content-changed", "%s: article %d of %q: title/poster/body differ from what was posted (body %d vs %d bytes)", when, id, path, len(g(rp.FNewsArtData)), len(a.Body))
				return false
			}
			if a.Date == "" {
				a.Date = g(rp.FNewsArtDate)
			} else if g(rp.FNewsArtDate) != a.Date {
				w.Violate("c18-article-date-changed", "%s: article %d: date changed", when, id)
				return false
			}
			if be32([]byte(g(rp.FNewsArtParentArt))) != a.Parent || be32([]byte(g(rp.FNewsArtPrevArt))) != a.Prev || be32([]byte(g(rp.FNewsArtNextArt))) != a.Next {
				w.Violate("c18-article-links-differ", "%s: article %d: parent/prev/next = %d/%d/%d, want %d/%d/%d", when, id, be32([]byte(g(rp.FNewsArtParentArt))), be32([]byte(g(rp.FNewsArtPrevArt))), be32([]byte(g(rp.FNewsArtNextArt))), a.Parent, a.Prev, a.Next)
				return false
			}
		}
		return true
	}
	var cmpStore func(n *newsNode, cats map[string]hotline.NewsCategoryListData15, p string) string
	cmpStore = func(n *newsNode, cats map[string]hotline.NewsCategoryListData15, p string) string {
		if len(cats) != len(n.Children) {
			return fmt.Sprintf("%q has %d children in the file, want %d", p, len(cats), len(n.Children))
		}
		for name, ch := range n.Children {
			sc, ok := cats[name]
			if !ok {
				return fmt.Sprintf("%q lacks child %q", p, name)
			}
			if ch.Bundle {
				if sc.Type != hotline.NewsBundle {
					return fmt.Sprintf("%q/%q is not a bundle in the file", p, name)
				}
				if d := cmpStore(ch, sc.SubCats, p+"/"+name); d != "" {
					return d
				}
				continue
			}
			if sc.Type != hotline.NewsCategory || len(sc.Articles) != len(ch.Arts) {
				return fmt.Sprintf("%q/%q: type %v, %d articles in the file, want %d", p, name, sc.Type, len(sc.Articles), len(ch.Arts))
			}
			for id, a := range ch.Arts {
				sa := sc.Articles[id]
				if sa == nil || sa.Title != a.Title || sa.Poster != a.Poster || sa.Data != a.Body || binary.BigEndian.Uint32(sa.ParentArt[:]) != a.Parent {
					return fmt.Sprintf("%q/%q article %d differs in the file", p, name, id)
				}
			}
		}
		return ""
	}

	w.Sim.Go("flow", true, func() {
		if !login() {
			w.Violate("c18-login", "could not log in")
			return
		}
		for step, op := range w.Case.Ops {
			when := fmt.Sprintf("step %d %s", step, op.K)
			var bundles, cats [][]string
			paths(root, nil, &bundles, &cats)
			orng := rand.New(rand.NewSource(int64(op.N[1])))
			text := func(n int) string {
				b := make([]byte, n)
				for i := range b {
					b[i] = byte(0x20 + orng.Intn(0xd0))
				}
				return string(b)
			}
			if cfg["reloads"] == 1 && op.K != "restart" && op.K != "stale" && op.K != "awayreload" {
				w.ReloadDuring(op.N[1] % 48)
			}
			switch op.K {
			case "bundle", "category":
				parent := bundles[op.N[0]%len(bundles)]
				if len(parent) >= 3 {
					parent = parent[:2]
				}
				pn := root.at(parent)
				name := c18Names[op.N[1]%len(c18Names)] + fmt.Sprint(op.N[1]%7)
				if pn.Children[name] != nil {
					continue
				}
				var rep rp.Tran
				var ok bool
				if op.K == "bundle" {
					rep, ok = c.NewNewsBundle(parent, name)
				} else {
					rep, ok = c.NewNewsCat(parent, name)
				}
				if !ok || rep.Err != 0 {
					w.Violate("c18-create-refused", "%s: creating %q under %q refused", when, name, parent)
					return
				}
				if op.K == "bundle" {
					pn.Children[name] = &newsNode{Bundle: true, Children: map[string]*newsNode{}}
				} else {
					pn.Children[name] = &newsNode{Arts: map[uint32]*newsArt{}}
				}
				if !checkCats(parent, when) {
					return
				}
			case "post", "reply":
				if len(cats) == 0 {
					continue
				}
				path := cats[op.N[0]%len(cats)]
				n := root.at(path)
				var ids []int
				for id := range n.Arts {
					ids = append(ids, int(id))
				}
				sort.Ints(ids)
				parent := uint32(0)
				if op.K == "reply" {
					if len(ids) == 0 {
						continue
					}
					parent = uint32(ids[op.N[1]%len(ids)])
				}
				title, body := text(op.N[2]), text(op.N[3])
				rep, ok := c.PostArticle(path, parent, title, body)
				if !ok || rep.Err != 0 {
					w.Violate("c18-post-refused", "%s: posting to %q refused/unanswered", when, path)
					return
				}
				// discover the new id from the list
				lrep, _ := c.ListArticles(path)
				raw, _ := lrep.Get(rp.FNewsArtListData)
				recs, err := decodeArtList(raw)
				if err != nil {
					w.Violate("c18-article-list-unparseable", "%s: %q: %v", when, path, err)
					return
				}
				var fresh []uint32
				for _, r := range recs {
					if n.Arts[r.ID] == nil {
						fresh = append(fresh, r.ID)
					}
				}
				if len(fresh) != 1 || len(recs) != len(n.Arts)+1 {
					w.Violate("c18-post-id", "%s: after posting to %q the list has %d records (%d before) of which %d carry an id not used before", when, path, len(recs), len(n.Arts), len(fresh))
					return
				}
				a := &newsArt{Title: title, Poster: poster, Body: body, Parent: parent}
				if len(ids) > 0 {
					a.Prev = uint32(ids[len(ids)-1])
					n.Arts[a.Prev].Next = fresh[0]
				}
				n.Arts[fresh[0]] = a
				w.Probe("articles_posted")
				if !checkArts(path, when) || !checkCats(path[:len(path)-1], when) {
					return
				}
			case "delart":
				if len(cats) == 0 {
					continue
				}
				path := cats[op.N[0]%len(cats)]
				n := root.at(path)
				var ids []int
				for id := range n.Arts {
					ids = append(ids, int(id))
				}
				if len(ids) == 0 {
					continue
				}
				sort.Ints(ids)
				id := uint32(ids[op.N[1]%len(ids)])
				rep, ok := c.DelArticle(path, id)
				if !ok || rep.Err != 0 {
					w.Violate("c18-delete-refused", "%s: delete article refused", when)
					return
				}
				delete(n.Arts, id)
				if !checkArts(path, when) {
					return
				}
			case "delitem":
				all := append(append([][]string{}, cats...), bundles[1:]...)
				if len(all) == 0 {
					continue
				}
				path := all[op.N[0]%len(all)]
				rep, ok := c.DelNewsItem(path)
				if !ok || rep.Err != 0 {
					w.Violate("c18-delete-refused", "%s: delete of %q refused", when, path)
					return
				}
				delete(root.at(path[:len(path)-1]).Children, path[len(path)-1])
				if !checkCats(path[:len(path)-1], when) {
					return
				}
			case "stale":
				// a request whose path names a component that does not exist (any more): whatever the answer, nothing
				// that is present may change and nothing may be shown under the missing path
				all := append(append([][]string{}, cats...), bundles...)
				base := all[op.N[0]%len(all)]
				pos := 0
				if len(base) > 0 {
					pos = op.N[1] % (len(base) + 1)
				}
				stale := append(append(append([]string{}, base[:pos]...), fmt.Sprintf("Gone%d", op.N[1]%5)), base[pos:]...)
				if op.N[2]%2 == 1 && len(base) > 0 {
					// replace instead of insert
					stale = append(append(append([]string{}, base[:pos%len(base)]...), fmt.Sprintf("Gone%d", op.N[1]%5)), base[pos%len(base)+1:]...)
				}
				seq++
				sc := w.NewClient("stale", fmt.Sprintf("10.2.%d.%d", seq/250, seq%250+1))
				if !sc.Login("guest", "", "stale", 1) {
					w.Violate("c18-login", "could not log in")
					return
				}
				kind := op.N[0] / 7 % 5
				w.Probe(fmt.Sprintf("stale_path_requests_kind%d", kind))
				switch kind {
				case 0:
					sc.PostArticle(stale, 0, "stale title", "stale body")
				case 1:
					sc.DelArticle(stale, uint32(1+op.N[1]%3))
				case 2:
					sc.NewNewsCat(stale, "StaleCat")
				case 3:
					sc.NewNewsBundle(stale, "StaleBundle")
				case 4:
					if rep, ok := sc.ListCategories(stale); ok && rep.Err == 0 && len(rep.GetAll(rp.FNewsCatListData15)) > 0 {
						w.Violate("c18-phantom-category", "%s: category list of %q, which does not exist, shows %d entries", when, stale, len(rep.GetAll(rp.FNewsCatListData15)))
						return
					}
				}
				sc.Disconnect()
				for _, b := range bundles {
					if !checkCats(b, when) {
						return
					}
				}
				for _, ct := range cats {
					if !checkArts(ct, when) {
						return
					}
				}
			case "awayreload":
				// the operator replaces the news file the careless way (moves it aside, puts the new one in place a
				// moment later) and the reload signal arrives in between: the reload fails, and a failed reload is
				// no reason to forget a single article
				SettleShort() // an operator reload placed inside the previous request has run by now
				np := filepath.Join(w.ConfigDir, "ThreadedNews.yaml")
				if w.Srv == nil || w.Srv.News == nil || os.Rename(np, np+".aside") != nil {
					continue
				}
				err := w.Srv.News.Load()
				must(os.Rename(np+".aside", np))
				w.Probe("fault_operator_reload_while_news_file_is_away")
				if err == nil {
					w.Probe("reload_without_news_file_reported_no_error")
				}
				var bs, cs [][]string
				paths(root, nil, &bs, &cs)
				for _, b := range bs {
					if !checkCats(b, when) {
						return
					}
				}
				for _, ct := range cs {
					if !checkArts(ct, when) {
						return
					}
				}
			case "restart":
				w.StopServer()
				simrt.Sleep(4e9)
				if si := w.StartServer(); si.StartErr != nil {
					w.Violate("c18-restart-fails", "%s: server does not start from the news file: %v", when, si.StartErr)
					return
				}
				if !login() {
					w.Violate("c18-login", "could not log in after restart")
					return
				}
				w.Probe("restarts")
				var bs, cs [][]string
				paths(root, nil, &bs, &cs)
				for _, b := range bs {
					if !checkCats(b, when) {
						return
					}
				}
				for _, ct := range cs {
					if !checkArts(ct, when) {
						return
					}
				}
			}
			// a second store loaded from the file reproduces the same tree
			tn, err := mobius.NewThreadedNewsYAML(newsFile)
			if err != nil {
				w.Violate("c18-reload-fails", "%s: NewThreadedNewsYAML: %v", when, err)
				return
			}
			if d := cmpStore(root, tn.ThreadedNews.Categories, ""); d != "" {
				w.Violate("c18-reloaded-tree-differs", "%s: %s", when, d)
				return
			}
		}
	})
	w.Sim.Run()
}

func init() {
	Register(&Scenario{ID: "C18", Gen: genC18, Run: runC18})
}
