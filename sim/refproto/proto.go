// Package refproto is an independent reference codec for the Hotline protocol, written
// from docs/HLProtocol.pages.pdf.  It imports nothing from package hotline (DESIGN §4.1).
// Decoders are strict: every length/count prefix must agree with the bytes that follow.
package refproto

import (
	"encoding/binary"
	"errors"
	"fmt"
)

// Transaction types (protocol document numbering).
const (
	TError                = 0
	TGetMsgs              = 101
	TNewMsg               = 102
	TOldPostNews          = 103
	TServerMsg            = 104
	TChatSend             = 105
	TChatMsg              = 106
	TLogin                = 107
	TSendInstantMsg       = 108
	TShowAgreement        = 109
	TDisconnectUser       = 110
	TDisconnectMsg        = 111
	TInviteNewChat        = 112
	TInviteToChat         = 113
	TRejectChatInvite     = 114
	TJoinChat             = 115
	TLeaveChat            = 116
	TNotifyChatChangeUser = 117
	TNotifyChatDeleteUser = 118
	TNotifyChatSubject    = 119
	TSetChatSubject       = 120
	TAgreed               = 121
	TServerBanner         = 122
	TGetFileNameList      = 200
	TDownloadFile         = 202
	TUploadFile           = 203
	TDeleteFile           = 204
	TNewFolder            = 205
	TGetFileInfo          = 206
	TSetFileInfo          = 207
	TMoveFile             = 208
	TMakeFileAlias        = 209
	TDownloadFldr         = 210
	TDownloadInfo         = 211
	TDownloadBanner       = 212
	TUploadFldr           = 213
	TGetUserNameList      = 300
	TNotifyChangeUser     = 301
	TNotifyDeleteUser     = 302
	TGetClientInfoText    = 303
	TSetClientUserInfo    = 304
	TListUsers            = 348
	TUpdateUser           = 349
	TNewUser              = 350
	TDeleteUser           = 351
	TGetUser              = 352
	TSetUser              = 353
	TUserAccess           = 354
	TUserBroadcast        = 355
	TGetNewsCatNameList   = 370
	TGetNewsArtNameList   = 371
	TDelNewsItem          = 380
	TNewNewsFldr          = 381
	TNewNewsCat           = 382
	TGetNewsArtData       = 400
	TPostNewsArt          = 410
	TDelNewsArt           = 411
	TKeepAlive            = 500
)

// Field ids.
const (
	FError               = 100
	FData                = 101
	FUserName            = 102
	FUserID              = 103
	FUserIconID          = 104
	FUserLogin           = 105
	FUserPassword        = 106
	FRefNum              = 107
	FTransferSize        = 108
	FChatOptions         = 109
	FUserAccess          = 110
	FUserFlags           = 112
	FOptions             = 113
	FChatID              = 114
	FChatSubject         = 115
	FWaitingCount        = 116
	FBannerType          = 152
	FNoServerAgreement   = 152
	FVersion             = 160
	FCommunityBannerID   = 161
	FServerName          = 162
	FFileNameWithInfo    = 200
	FFileName            = 201
	FFilePath            = 202
	FFileResumeData      = 203
	FFileTransferOptions = 204
	FFileTypeString      = 205
	FFileCreatorString   = 206
	FFileSize            = 207
	FFileCreateDate      = 208
	FFileModifyDate      = 209
	FFileComment         = 210
	FFileNewName         = 211
	FFileNewPath         = 212
	FFileType            = 213
	FQuotingMsg          = 214
	FAutomaticResponse   = 215
	FFolderItemCount     = 220
	FUsernameWithInfo    = 300
	FNewsArtListData     = 321
	FNewsCatName         = 322
	FNewsCatListData15   = 323
	FNewsPath            = 325
	FNewsArtID           = 326
	FNewsArtDataFlav     = 327
	FNewsArtTitle        = 328
	FNewsArtPoster       = 329
	FNewsArtDate         = 330
	FNewsArtPrevArt      = 331
	FNewsArtNextArt      = 332
	FNewsArtData         = 333
	FNewsArtFlags        = 334
	FNewsArtParentArt    = 335
	FNewsArt1stChildArt  = 336
	FNewsArtRecurseDel   = 337
)

// Field is one transaction parameter.
type Field struct {
	ID   uint16
	Data []byte
}

// Tran is one transaction.
type Tran struct {
	Flags   byte
	IsReply byte
	Type    uint16
	ID      uint32
	Err     uint32
	Fields  []Field
}

func F(id uint16, data []byte) Field { return Field{ID: id, Data: append([]byte{}, data...)} }
func FS(id uint16, s string) Field   { return Field{ID: id, Data: []byte(s)} }
func F16(id uint16, v uint16) Field  { return Field{ID: id, Data: []byte{byte(v >> 8), byte(v)}} }
func F32(id uint16, v uint32) Field {
	return Field{ID: id, Data: []byte{byte(v >> 24), byte(v >> 16), byte(v >> 8), byte(v)}}
}

// Get returns the data of the first field with the given id.
func (t *Tran) Get(id uint16) ([]byte, bool) {
	for _, f := range t.Fields {
		if f.ID == id {
			return f.Data, true
		}
	}
	return nil, false
}

func (t *Tran) GetAll(id uint16) [][]byte {
	var out [][]byte
	for _, f := range t.Fields {
		if f.ID == id {
			out = append(out, f.Data)
		}
	}
	return out
}

// Encode returns the wire form: 20-byte header, 2-byte parameter count, parameters.
func (t *Tran) Encode() []byte {
	body := []byte{byte(len(t.Fields) >> 8), byte(len(t.Fields))}
	for _, f := range t.Fields {
		body = append(body, byte(f.ID>>8), byte(f.ID), byte(len(f.Data)>>8), byte(len(f.Data)))
		body = append(body, f.Data...)
	}
	h := make([]byte, 20)
	h[0], h[1] = t.Flags, t.IsReply
	binary.BigEndian.PutUint16(h[2:], t.Type)
	binary.BigEndian.PutUint32(h[4:], t.ID)
	binary.BigEndian.PutUint32(h[8:], t.Err)
	binary.BigEndian.PutUint32(h[12:], uint32(len(body)))
	binary.BigEndian.PutUint32(h[16:], uint32(len(body)))
	return append(h, body...)
}

var ErrShort = errors.New("refproto: need more bytes")

// DecodeTran strictly decodes one transaction from the front of b.
// It returns ErrShort if b does not yet hold a complete frame.
func DecodeTran(b []byte) (Tran, int, error) {
	var t Tran
	if len(b) < 20 {
		return t, 0, ErrShort
	}
	total := binary.BigEndian.Uint32(b[12:16])
	data := binary.BigEndian.Uint32(b[16:20])
	if total > 1<<24 {
		return t, 0, fmt.Errorf("refproto: implausible total size %d", total)
	}
	if len(b) < 20+int(total) {
		return t, 0, ErrShort
	}
	if data != total {
		return t, 0, fmt.Errorf("refproto: data size %d != total size %d (multi-part not used by this server)", data, total)
	}
	t.Flags, t.IsReply = b[0], b[1]
	t.Type = binary.BigEndian.Uint16(b[2:4])
	t.ID = binary.BigEndian.Uint32(b[4:8])
	t.Err = binary.BigEndian.Uint32(b[8:12])
	if t.IsReply > 1 {
		return t, 0, fmt.Errorf("refproto: reply flag %d", t.IsReply)
	}
	body := b[20 : 20+int(total)]
	if len(body) < 2 {
		return t, 0, fmt.Errorf("refproto: body of %d bytes has no parameter count", len(body))
	}
	cnt := int(binary.BigEndian.Uint16(body[0:2]))
	p := body[2:]
	for i := 0; i < cnt; i++ {
		if len(p) < 4 {
			return t, 0, fmt.Errorf("refproto: parameter %d of %d: header truncated (%d bytes left)", i, cnt, len(p))
		}
		id := binary.BigEndian.Uint16(p[0:2])
		l := int(binary.BigEndian.Uint16(p[2:4]))
		if len(p) < 4+l {
			return t, 0, fmt.Errorf("refproto: parameter %d (id %d): length prefix %d exceeds remaining %d", i, id, l, len(p)-4)
		}
		t.Fields = append(t.Fields, Field{ID: id, Data: append([]byte{}, p[4:4+l]...)})
		p = p[4+l:]
	}
	if len(p) != 0 {
		return t, 0, fmt.Errorf("refproto: %d trailing bytes after %d parameters", len(p), cnt)
	}
	return t, 20 + int(total), nil
}

// Obfuscate is the protocol's login/password scrambling (each byte negated).
func Obfuscate(b []byte) []byte {
	o := make([]byte, len(b))
	for i, c := range b {
		o[i] = ^c
	}
	return o
}

// Handshake is the 12-byte client hello.
func Handshake() []byte {
	return []byte{'T', 'R', 'T', 'P', 'H', 'O', 'T', 'L', 0, 1, 0, 2}
}

// HandshakeOK is the 8-byte server answer.
var HandshakeOK = []byte{'T', 'R', 'T', 'P', 0, 0, 0, 0}

// User is a decoded user-name-with-info record (field 300).
type User struct {
	ID    uint16
	Icon  uint16
	Flags uint16
	Name  string
}

func DecodeUser(b []byte) (User, error) {
	var u User
	if len(b) < 8 {
		return u, fmt.Errorf("refproto: user record of %d bytes", len(b))
	}
	u.ID = binary.BigEndian.Uint16(b[0:2])
	u.Icon = binary.BigEndian.Uint16(b[2:4])
	u.Flags = binary.BigEndian.Uint16(b[4:6])
	n := int(binary.BigEndian.Uint16(b[6:8]))
	if len(b) != 8+n {
		return u, fmt.Errorf("refproto: user record: name length %d but %d bytes follow", n, len(b)-8)
	}
	u.Name = string(b[8:])
	return u, nil
}

func EncodeUser(u User) []byte {
	b := make([]byte, 8)
	binary.BigEndian.PutUint16(b[0:], u.ID)
	binary.BigEndian.PutUint16(b[2:], u.Icon)
	binary.BigEndian.PutUint16(b[4:], u.Flags)
	binary.BigEndian.PutUint16(b[6:], uint16(len(u.Name)))
	return append(b, u.Name...)
}

// FilePath encodes path components: count(2) then per item 00 00 len(1) name.
func FilePath(items ...string) []byte {
	b := []byte{byte(len(items) >> 8), byte(len(items))}
	for _, it := range items {
		b = append(b, 0, 0, byte(len(it)))
		b = append(b, it...)
	}
	return b
}

// NewsPath has the same layout as FilePath.
func NewsPath(items ...string) []byte { return FilePath(items...) }

// FileEntry is a decoded file-name-with-info record (field 200).
type FileEntry struct {
	Type, Creator string
	Size          uint32
	Name          string
}

func DecodeFileEntry(b []byte) (FileEntry, error) {
	var e FileEntry
	if len(b) < 20 {
		return e, fmt.Errorf("refproto: file entry of %d bytes", len(b))
	}
	e.Type, e.Creator = string(b[0:4]), string(b[4:8])
	e.Size = binary.BigEndian.Uint32(b[8:12])
	n := int(binary.BigEndian.Uint16(b[18:20]))
	if len(b) != 20+n {
		return e, fmt.Errorf("refproto: file entry: name length %d but %d bytes follow", n, len(b)-20)
	}
	e.Name = string(b[20:])
	return e, nil
}

// U16 / U32 decode big-endian integers sent as 2 or 4 bytes.
func Int(b []byte) (int, bool) {
	switch len(b) {
	case 2:
		return int(binary.BigEndian.Uint16(b)), true
	case 4:
		return int(binary.BigEndian.Uint32(b)), true
	}
	return 0, false
}
