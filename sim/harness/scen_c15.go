package harness

import (
	"encoding/binary"
	"fmt"
	"math/rand"
	"os"
	"path"
	"path/filepath"
	"sort"
	"strings"
	"time"

	"github.com/jhalter/mobius/internal/mobius"
	rp "github.com/jhalter/mobius/verifsim/refproto"
	"github.com/jhalter/mobius/verifsim/simrt"
	"golang.org/x/crypto/bcrypt"
	"gopkg.in/yaml.v3"
)

// C15: accounts - what can log in = what is listed = what is on disk (DESIGN §6 C15).

var c15Logins = []string{"jos\x8e", "alice", "bob", "Carol Smith", "dave.1", "eve-x", "zo\xc3\xab", "UPPER", "x", "trent_2", "mallory+1", ".ops", "..dots", " lead", "trail ", "#hash", "a.yaml"}

// passwords made only of 0xFF bytes are left out: on the wire they are all-zero bytes, and bcrypt's cyclic key schedule
// cannot tell an all-zero key of any length from the empty password (an artefact of the scheme, not of the server)
var c15Pws = []string{"", "pw", "secret password", "p\x00q", "\xfe\x01\x7f", "\xffabc", "\xffz\xff", "0123456789012345678901234567890123456789012345678901234567890123456789ab"}

func genC15(rng *rand.Rand, c *Case) {
	c.Cfg["policy"] = rng.Intn(3)
	// a quarter of the cases make every function entry of the server a scheduling point (races on lock-free shared state)
	c.Cfg["fnyield"] = rng.Intn(4) / 3
	// a second administrator on its own connection edits its own accounts at the same moment as each request
	c.Cfg["admin2"] = rng.Intn(2)
	n := 3 + rng.Intn(10)
	live := []int{}
	free := rng.Perm(len(c15Logins))
	dead := []int{}
	take := func() int {
		if len(dead) > 0 && rng.Intn(3) == 0 { // reuse a recently deleted / renamed-away login
			i := rng.Intn(len(dead))
			v := dead[i]
			dead = append(dead[:i], dead[i+1:]...)
			return v
		}
		if len(free) == 0 {
			return -1
		}
		v := free[0]
		free = free[1:]
		return v
	}
	for i := 0; i < n; i++ {
		acc := rng.Intn(1 << 20)
		pw := rng.Intn(len(c15Pws))
		switch k := rng.Intn(13); {
		case k < 3 || len(live) == 0:
			if l := take(); l >= 0 {
				c.Ops = append(c.Ops, Op{K: []string{"newuser", "batch-create"}[rng.Intn(2)], N: []int{l, acc, pw}})
				live = append(live, l)
			}
		case k < 5:
			c.Ops = append(c.Ops, Op{K: "setuser", N: []int{live[rng.Intn(len(live))], acc, pw, rng.Intn(3)}})
		case k < 7:
			c.Ops = append(c.Ops, Op{K: "batch-modify", N: []int{live[rng.Intn(len(live))], acc, pw, rng.Intn(3)}})
		case k < 9 && len(live) >= 2 && rng.Intn(4) == 0:
			// rename onto a login that exists: either refused with nothing changed, or the target is replaced
			j, t := rng.Intn(len(live)), rng.Intn(len(live))
			if j != t {
				c.Ops = append(c.Ops, Op{K: "batch-rename", N: []int{live[j], live[t], acc, pw, rng.Intn(3)}})
				dead = append(dead, live[j])
				live = append(live[:j], live[j+1:]...)
			}
		// (renames to another spelling of the same file name - "/x", "x/", "./x" - are not generated: such logins are
		// not legal file names, which the property's quantifier requires; C04 covers the authentication side of them)
		case k < 9:
			if l := take(); l >= 0 {
				j := rng.Intn(len(live))
				c.Ops = append(c.Ops, Op{K: "batch-rename", N: []int{live[j], l, acc, pw, rng.Intn(3)}})
				dead = append(dead, live[j])
				live[j] = l
			}
		case k < 10:
			j := rng.Intn(len(live))
			c.Ops = append(c.Ops, Op{K: []string{"deluser", "batch-delete"}[rng.Intn(2)], N: []int{live[j]}})
			dead = append(dead, live[j])
			live = append(live[:j], live[j+1:]...)
		case k < 11:
			c.Ops = append(c.Ops, Op{K: "restart"})
		case k < 12 && rng.Intn(2) == 0 && len(live) >= 2:
			// a batch whose first record renames (or edits in place, naming the login it edits) and whose later
			// records modify another account and create a third
			if l := take(); l >= 0 {
				j, m := rng.Intn(len(live)), rng.Intn(len(live))
				cl := take()
				if j != m && cl >= 0 {
					inplace := rng.Intn(2)
					c.Ops = append(c.Ops, Op{K: "batch-rename-then", N: []int{live[j], l, live[m], cl, acc, pw, inplace}})
					if inplace == 0 {
						dead = append(dead, live[j])
						live[j] = l
					} else {
						free = append(free, l)
					}
					live = append(live, cl)
				}
			}
		default:
			// a mixed batch: create one, modify one, delete one in a single request
			if l := take(); l >= 0 && len(live) >= 2 {
				m, d := rng.Intn(len(live)), rng.Intn(len(live))
				if m != d {
					c.Ops = append(c.Ops, Op{K: "batch-mixed", N: []int{l, live[m], live[d], acc, pw}})
					dead = append(dead, live[d])
					live = append(live[:d], live[d+1:]...)
					live = append(live, l)
				}
			}
		}
	}
}

type c15File struct {
	Login    string          `yaml:"Login"`
	Name     string          `yaml:"Name"`
	Password string          `yaml:"Password"`
	Access   map[string]bool `yaml:"Access"`
}

func runC15(w *World) {
	adminAcc := rp.AllAccess()
	w.AddAccount("admin", "Admin", "adminpw", adminAcc)
	w.AddAccount("guest", "Guest", "", rp.AccessOf(rp.PReadChat))
	model := map[string]acctModel{
		"admin": {Name: "Admin", Access: adminAcc, Pw: "adminpw"},
		"guest": {Name: "Guest", Access: rp.AccessOf(rp.PReadChat), Pw: ""},
	}
	everPw := map[string]map[string]bool{} // login -> passwords ever associated
	note := func(login, pw string) {
		if everPw[login] == nil {
			everPw[login] = map[string]bool{"": true}
		}
		everPw[login][pw] = true
	}
	w.StartServer()
	usersDir := filepath.Join(w.ConfigDir, "Users")
	probeSeq := 0
	pwOK := map[string]bool{}
	hashOK := func(hash, pw string) bool {
		k := hash + "\x00" + pw
		if v, ok := pwOK[k]; ok {
			return v
		}
		v := bcrypt.CompareHashAndPassword([]byte(hash), rp.Obfuscate([]byte(pw))) == nil
		pwOK[k] = v
		return v
	}

	spelling := map[int]string{} // pool index -> current spelling of that login (after a rename to an equivalent spelling)
	var admin *Client
	loginAdmin := func() bool {
		probeSeq++
		admin = w.NewClient("administrator", fmt.Sprintf("10.2.%d.%d", probeSeq/250, probeSeq%250+1))
		return admin.Login("admin", "adminpw", "", 0) && admin.Agree("administrator", 0, 0, "")
	}

	verify := func(when string) bool {
		// view 1: who can authenticate
		var logins []string
		for l := range everPw {
			logins = append(logins, l)
		}
		sort.Strings(logins)
		for _, l := range logins {
			var pws []string
			for p := range everPw[l] {
				pws = append(pws, p)
			}
			sort.Strings(pws)
			for _, p := range pws {
				probeSeq++
				pc := w.NewClient(fmt.Sprintf("probe%d", probeSeq), fmt.Sprintf("10.3.%d.%d", probeSeq/250, probeSeq%250+1))
				got := pc.Login(l, p, "", 0)
				pc.Disconnect()
				m, exists := model[l]
				want := exists && m.Pw == p
				if got != want {
					sig := "c15-stale-login-still-works"
					if want {
						sig = "c15-valid-login-refused"
					} else if exists {
						sig = "c15-wrong-password-accepted"
					}
					w.Violate(sig, "%s: login %q with password %q: authenticated=%v, want %v (account exists in model: %v)", when, l, p, got, want, exists)
					return false
				}
				w.Probe("login_probes")
			}
		}
		// view 2: what administrators are shown
		rep, ok := admin.Do(rp.TListUsers)
		if !ok || rep.Err != 0 {
			w.Violate("c15-list-users-unanswered", "%s: list-users failed", when)
			return false
		}
		listed := map[string]bool{}
		for _, rec := range rep.GetAll(rp.FData) {
			if len(rec) < 2 {
				w.Violate("c15-list-record-malformed", "%s: account record of %d bytes", when, len(rec))
				return false
			}
			cnt := int(binary.BigEndian.Uint16(rec))
			p := rec[2:]
			f := map[uint16][]byte{}
			for i := 0; i < cnt; i++ {
				if len(p) < 4 || len(p) < 4+int(binary.BigEndian.Uint16(p[2:4])) {
					w.Violate("c15-list-record-malformed", "%s: account record field %d truncated", when, i)
					return false
				}
				l := int(binary.BigEndian.Uint16(p[2:4]))
				f[binary.BigEndian.Uint16(p[0:2])] = p[4 : 4+l]
				p = p[4+l:]
			}
			if len(p) != 0 {
				w.Violate("c15-list-record-malformed", "%s: %d trailing bytes in account record", when, len(p))
				return false
			}
			login := string(rp.Obfuscate(f[rp.FUserLogin]))
			m, exists := model[login]
			if !exists {
				w.Violate("c15-listed-account-does-not-exist", "%s: list-users shows %q, which was deleted / renamed away / never created", when, login)
				return false
			}
			if listed[login] {
				w.Violate("c15-account-listed-twice", "%s: %q listed twice", when, login)
				return false
			}
			listed[login] = true
			_, hasPw := f[rp.FUserPassword]
			var acc rp.Access
			copy(acc[:], f[rp.FUserAccess])
			if string(f[rp.FUserName]) != m.Name || acc != m.Access || hasPw != (m.Pw != "") {
				w.Violate("c15-listed-account-differs", "%s: %q listed with name %q access %x has-password=%v, want %q %x %v", when, login, f[rp.FUserName], acc, hasPw, m.Name, m.Access, m.Pw != "")
				return false
			}
		}
		for l := range model {
			if !listed[l] {
				w.Violate("c15-account-not-listed", "%s: account %q exists but list-users does not show it", when, l)
				return false
			}
		}
		// view 3: the files
		ents, _ := os.ReadDir(usersDir)
		onDisk := map[string]bool{}
		for _, e := range ents {
			if !strings.HasSuffix(e.Name(), ".yaml") {
				continue
			}
			b, _ := os.ReadFile(filepath.Join(usersDir, e.Name()))
			var af c15File
			if err := yaml.Unmarshal(b, &af); err != nil {
				w.Violate("c15-account-file-unparsable", "%s: %s: %v", when, e.Name(), err)
				return false
			}
			m, exists := model[af.Login]
			if !exists {
				w.Violate("c15-file-for-nonexistent-account", "%s: file %q holds login %q, which does not exist", when, e.Name(), af.Login)
				return false
			}
			if e.Name() != strings.TrimPrefix(path.Join("/", af.Login)+".yaml", "/") {
				w.Violate("c15-file-name-login-mismatch", "%s: file %q holds login %q", when, e.Name(), af.Login)
				return false
			}
			onDisk[af.Login] = true
			var acc rp.Access
			for bit, key := range rp.AccessNames {
				if af.Access[key] {
					acc.Set(bit)
				}
			}
			want := m.Access
			for i := 0; i < 64; i++ { // only defined privileges have a name in the file
				if _, def := rp.AccessNames[i]; !def {
					want.Clear(i)
				}
			}
			if af.Name != m.Name || acc != want {
				w.Violate("c15-file-differs", "%s: file of %q has name %q access %x, want %q %x", when, af.Login, af.Name, acc, m.Name, want)
				return false
			}
			if !strings.HasPrefix(af.Password, "$2") || af.Password == m.Pw || strings.Contains(af.Password, string(rp.Obfuscate([]byte(m.Pw)))) && len(m.Pw) > 3 {
				w.Violate("c15-password-not-hashed", "%s: file of %q stores the password unhashed (%q)", when, af.Login, Short([]byte(af.Password)))
				return false
			}
			if !hashOK(af.Password, m.Pw) {
				w.Violate("c15-file-password-differs", "%s: the hash in the file of %q does not verify the account's password", when, af.Login)
				return false
			}
		}
		for l := range model {
			if !onDisk[l] {
				w.Violate("c15-account-without-file", "%s: account %q has no file on disk", when, l)
				return false
			}
		}
		// view 4: a second manager loaded from the directory
		am, err := mobius.NewYAMLAccountManager(usersDir)
		if err != nil {
			w.Violate("c15-reload-fails", "%s: NewYAMLAccountManager: %v", when, err)
			return false
		}
		if d := acctStateDiff(am.List(), model, hashOK); d != "" {
			w.Violate("c15-reloaded-accounts-differ", "%s: accounts loaded from disk differ: %s", when, d)
			return false
		}
		return true
	}

	// second administrator: one request of a fixed create / modify / rename / delete cycle on its own two logins,
	// released at the same moment as each request of the first administrator and joined before the views are compared
	var admin2 *Client
	var q2, qMain simrt.WaitQ
	pending2, done2, stop2 := false, true, false
	cycle2 := 0
	loginAdmin2 := func() bool {
		probeSeq++
		admin2 = w.NewClient("administrator2", fmt.Sprintf("10.4.%d.%d", probeSeq/250, probeSeq%250+1))
		return admin2.Login("admin", "adminpw", "", 0) && admin2.Agree("administrator2", 0, 0, "")
	}
	if w.Case.Cfg["admin2"] == 1 {
		w.Sim.Go("admin2", false, func() {
			for {
				for !pending2 && !stop2 {
					simrt.Park(&q2)
				}
				if stop2 {
					return
				}
				pending2 = false
				a := accessFromInt(cycle2 * 7919)
				var rep rp.Tran
				var ok bool
				switch cycle2 % 4 {
				case 0:
					note("zz-b0", "pw-b")
					rep, ok = admin2.NewUser("zz-b0", "Second admin's account", "pw-b", a)
					if ok && rep.Err == 0 {
						model["zz-b0"] = acctModel{Name: "Second admin's account", Access: a, Pw: "pw-b"}
					}
				case 1:
					rep, ok = admin2.SetUser("zz-b0", fmt.Sprintf("Edited by 2 (%d)", cycle2), a, PwUnchanged, "")
					if ok && rep.Err == 0 {
						m := model["zz-b0"]
						m.Name, m.Access = fmt.Sprintf("Edited by 2 (%d)", cycle2), a
						model["zz-b0"] = m
					}
				case 2:
					note("zz-b1", "pw-b")
					rep, ok = admin2.UpdateUsers([]UserEdit{{Kind: "rename", Login: "zz-b0", NewLogin: "zz-b1", Name: "Renamed by 2", Access: a, PwMode: PwUnchanged}})
					if ok && rep.Err == 0 {
						m := model["zz-b0"]
						delete(model, "zz-b0")
						m.Name, m.Access = "Renamed by 2", a
						model["zz-b1"] = m
					}
				case 3:
					rep, ok = admin2.DeleteUser("zz-b1")
					if ok && rep.Err == 0 {
						delete(model, "zz-b1")
					}
				}
				if !ok || rep.Err != 0 {
					w.Violate("c15-request-refused-second-admin", "second administrator's request %d (cycle step %d) refused/unanswered: %s", cycle2, cycle2%4, fieldStr(rep, rp.FError))
				}
				cycle2++
				w.Probe("concurrent_second_admin_requests")
				done2 = true
				simrt.Wake(&qMain)
			}
		})
	}
	w.Sim.Go("admin", true, func() {
		defer func() { stop2 = true; simrt.Wake(&q2) }()
		if !loginAdmin() {
			w.Violate("c15-admin-login", "administrator could not log in")
			return
		}
		if w.Case.Cfg["admin2"] == 1 && !loginAdmin2() {
			w.Violate("c15-admin-login", "second administrator could not log in")
			return
		}
		note("admin", "adminpw")
		note("guest", "")
		applyPw := func(m *acctModel, mode int, pw string) {
			switch mode {
			case PwNew:
				m.Pw = pw
			case PwAbsent:
				m.Pw = ""
			}
		}
		for step, op := range w.Case.Ops {
			when := fmt.Sprintf("step %d %s", step, op.K)
			okRep := func(rep rp.Tran, ok bool) bool {
				if !ok || rep.Err != 0 {
					w.Violate("c15-request-refused-"+op.K, "%s: refused/unanswered: %s", when, fieldStr(rep, rp.FError))
					return false
				}
				return true
			}
			L := func(i int) string {
				if sp, ok := spelling[i]; ok {
					return sp
				}
				return c15Logins[i]
			}
			join2 := func() {
				for !done2 {
					simrt.Park(&qMain)
				}
			}
			join2() // the request released in an iteration that was skipped
			if w.Case.Cfg["admin2"] == 1 && op.K != "restart" {
				pending2, done2 = true, false
				simrt.Wake(&q2)
			}
			switch op.K {
			case "newuser", "batch-create":
				l, a, pw := L(op.N[0]), accessFromInt(op.N[1]), c15Pws[op.N[2]]
				name := "Name of " + l
				if _, exists := model[l]; exists {
					continue
				}
				note(l, pw)
				if op.K == "newuser" {
					if !okRep(admin.NewUser(l, name, pw, a)) {
						return
					}
				} else if !okRep(admin.UpdateUsers([]UserEdit{{Kind: "create", Login: l, Name: name, Access: a, PwMode: PwNew, Pw: pw}})) {
					return
				}
				model[l] = acctModel{Name: name, Access: a, Pw: pw}
			case "setuser", "batch-modify":
				l, a, pw, mode := L(op.N[0]), accessFromInt(op.N[1]), c15Pws[op.N[2]], op.N[3]
				m, exists := model[l]
				if !exists {
					continue
				}
				name := fmt.Sprintf("Edited %d", step)
				if mode == PwNew {
					note(l, pw)
				}
				if op.K == "setuser" {
					if !okRep(admin.SetUser(l, name, a, mode, pw)) {
						return
					}
				} else if !okRep(admin.UpdateUsers([]UserEdit{{Kind: "modify", Login: l, Name: name, Access: a, PwMode: mode, Pw: pw}})) {
					return
				}
				m.Name, m.Access = name, a
				applyPw(&m, mode, pw)
				model[l] = m
			case "batch-rename":
				l, nl, a, pw, mode := L(op.N[0]), L(op.N[1]), accessFromInt(op.N[2]), c15Pws[op.N[3]], op.N[4]
				m, exists := model[l]
				_, clash := model[nl]
				if !exists || l == nl {
					continue
				}
				name := fmt.Sprintf("Renamed %d", step)
				note(nl, m.Pw)
				if mode == PwNew {
					note(nl, pw)
				}
				for p := range everPw[l] {
					note(nl, p) // the old login's passwords must not work for the new login unless current
				}
				rep, ok := admin.UpdateUsers([]UserEdit{{Kind: "rename", Login: l, NewLogin: nl, Name: name, Access: a, PwMode: mode, Pw: pw}})
				if clash {
					w.Probe("rename_onto_existing_login")
					if !ok || rep.Err != 0 {
						break // refused: nothing may have changed (verified below against the unchanged model)
					}
				} else if !okRep(rep, ok) {
					return
				}
				delete(model, l)
				m.Name, m.Access = name, a
				applyPw(&m, mode, pw)
				model[nl] = m
			case "rename-equivalent":
				l := L(op.N[0])
				m, exists := model[l]
				if !exists || strings.ContainsAny(l, "/") || strings.HasPrefix(l, ".") {
					continue
				}
				nl := []string{"/" + l, l + "/", "./" + l}[op.N[1]]
				a, pw, mode := accessFromInt(op.N[2]), c15Pws[op.N[3]], op.N[4]
				name := fmt.Sprintf("Respelled %d", step)
				note(nl, m.Pw)
				if mode == PwNew {
					note(nl, pw)
					note(l, pw)
				}
				for p := range everPw[l] {
					note(nl, p)
				}
				if !okRep(admin.UpdateUsers([]UserEdit{{Kind: "rename", Login: l, NewLogin: nl, Name: name, Access: a, PwMode: mode, Pw: pw}})) {
					return
				}
				delete(model, l)
				m.Name, m.Access = name, a
				applyPw(&m, mode, pw)
				model[nl] = m
				spelling[op.N[0]] = nl
				w.Probe("renamed_to_equivalent_spelling")
			case "batch-rename-then":
				l, nl, ml, cl := L(op.N[0]), L(op.N[1]), L(op.N[2]), L(op.N[3])
				a, pw, inplace := accessFromInt(op.N[4]), c15Pws[op.N[5]], op.N[6] == 1
				m1, e1 := model[l]
				_, e2 := model[nl]
				m3, e3 := model[ml]
				_, e4 := model[cl]
				if !e1 || e2 || !e3 || e4 || l == ml || nl == cl {
					continue
				}
				if inplace {
					nl = l // the record names the login it edits (what the 1.5+ client sends for a plain edit)
				}
				note(nl, m1.Pw)
				for p := range everPw[l] {
					note(nl, p)
				}
				note(cl, pw)
				edits := []UserEdit{
					{Kind: "rename", Login: l, NewLogin: nl, Name: "First of batch", Access: a, PwMode: PwUnchanged},
					{Kind: "modify", Login: ml, Name: "Second of batch", Access: a, PwMode: PwUnchanged},
					{Kind: "create", Login: cl, Name: "Third of batch", Access: a, PwMode: PwNew, Pw: pw},
				}
				if !okRep(admin.UpdateUsers(edits)) {
					return
				}
				delete(model, l)
				m1.Name, m1.Access = "First of batch", a
				model[nl] = m1
				m3.Name, m3.Access = "Second of batch", a
				model[ml] = m3
				model[cl] = acctModel{Name: "Third of batch", Access: a, Pw: pw}
				w.Probe("batches_with_rename_record_first")
			case "deluser", "batch-delete":
				l := L(op.N[0])
				if _, exists := model[l]; !exists {
					continue
				}
				// somebody logs in with that account at the instant it is deleted: the login is refused, or the session
				// is ended by the deletion - what must not remain is a live session of an account that no longer exists
				var racer *Client
				racerDone, racerIn := false, false
				var rq simrt.WaitQ
				if step%2 == 0 {
					probeSeq++
					racer = w.NewClient(fmt.Sprintf("racer%d", probeSeq), fmt.Sprintf("10.5.%d.%d", probeSeq/250, probeSeq%250+1))
					rpw := model[l].Pw
					mid := 5000 + step
					w.Sim.Go(fmt.Sprintf("racer%d", step), false, func() {
						w.Meet(mid, 2)
						racerIn = racer.Login(l, rpw, "", 0)
						racerDone = true
						simrt.Wake(&rq)
					})
					w.Meet(mid, 2)
					Delay(op.N[0] * 7 % 40)
				}
				if op.K == "deluser" {
					if !okRep(admin.DeleteUser(l)) {
						return
					}
				} else if !okRep(admin.UpdateUsers([]UserEdit{{Kind: "delete", Login: l}})) {
					return
				}
				delete(model, l)
				if racer != nil {
					for !racerDone {
						simrt.Park(&rq)
					}
					simrt.Sleep(8 * time.Second) // the deletion cuts the account's sessions off after a short notice period
					w.Probe("logins_racing_a_deletion")
					if racerIn && !racer.Closed {
						w.Violate("c15-session-of-deleted-account-lives", "%s: a login for %q was in flight while the account was deleted; the account is gone, the session is still connected", when, l)
						return
					}
					racer.Disconnect()
				}
			case "batch-mixed":
				nl, ml, dl, a, pw := L(op.N[0]), L(op.N[1]), L(op.N[2]), accessFromInt(op.N[3]), c15Pws[op.N[4]]
				_, e1 := model[nl]
				mm, e2 := model[ml]
				_, e3 := model[dl]
				if e1 || !e2 || !e3 || ml == dl {
					continue
				}
				note(nl, pw)
				edits := []UserEdit{
					{Kind: "create", Login: nl, Name: "Batch " + nl, Access: a, PwMode: PwNew, Pw: pw},
					{Kind: "modify", Login: ml, Name: "Batch-mod", Access: a, PwMode: PwUnchanged},
					{Kind: "delete", Login: dl},
				}
				if !okRep(admin.UpdateUsers(edits)) {
					return
				}
				model[nl] = acctModel{Name: "Batch " + nl, Access: a, Pw: pw}
				mm.Name, mm.Access = "Batch-mod", a
				model[ml] = mm
				delete(model, dl)
			case "restart":
				w.StopServer()
				simrt.Sleep(5e9)
				if si := w.StartServer(); si.StartErr != nil {
					w.Violate("c15-restart-fails", "%s: server does not start from the account files: %v", when, si.StartErr)
					return
				}
				if !loginAdmin() || (w.Case.Cfg["admin2"] == 1 && !loginAdmin2()) {
					w.Violate("c15-admin-login", "%s: administrator cannot log in after restart", when)
					return
				}
				w.Probe("restarts")
			}
			join2()
			w.Probe("ops_" + op.K)
			if !verify(when) {
				return
			}
		}
	})
	w.Sim.Run()
}

func init() {
	Register(&Scenario{ID: "C15", Gen: genC15, Run: runC15})
}
