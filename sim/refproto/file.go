package refproto

import (
	"encoding/binary"
	"fmt"
)

// Flattened file object layout (protocol document, "Flattened File Object"):
//   flat file header   : "FILP" version(2)=1 reserved(16) fork count(2)            = 24 bytes
//   fork header        : fork type(4) compression(4) reserved(4) data size(4)      = 16 bytes
//   information fork   : platform(4) type(4) creator(4) flags(4) platform flags(4)
//                        reserved(32) create date(8) modify date(8) name script(2)
//                        name size(2) name comment size(2) comment                 = 74+name+comment
//   fork header "DATA" + data, optionally fork header "MACR" + resource fork.

type InfoFork struct {
	Platform, Type, Creator string
	Flags, PlatformFlags    uint32
	CreateDate, ModifyDate  [8]byte
	NameScript              uint16
	Name                    []byte
	Comment                 []byte
	HasCommentSize          bool
}

func (f InfoFork) Encode() []byte {
	b := make([]byte, 72)
	copy(b[0:4], f.Platform)
	copy(b[4:8], f.Type)
	copy(b[8:12], f.Creator)
	binary.BigEndian.PutUint32(b[12:], f.Flags)
	binary.BigEndian.PutUint32(b[16:], f.PlatformFlags)
	copy(b[52:60], f.CreateDate[:])
	copy(b[60:68], f.ModifyDate[:])
	binary.BigEndian.PutUint16(b[68:], f.NameScript)
	binary.BigEndian.PutUint16(b[70:], uint16(len(f.Name)))
	b = append(b, f.Name...)
	b = append(b, byte(len(f.Comment)>>8), byte(len(f.Comment)))
	b = append(b, f.Comment...)
	return b
}

// DecodeInfoFork strictly decodes an information fork of exactly len(b) bytes.
func DecodeInfoFork(b []byte) (InfoFork, error) {
	var f InfoFork
	if len(b) < 72 {
		return f, fmt.Errorf("info fork of %d bytes (< 72)", len(b))
	}
	f.Platform, f.Type, f.Creator = string(b[0:4]), string(b[4:8]), string(b[8:12])
	f.Flags = binary.BigEndian.Uint32(b[12:])
	f.PlatformFlags = binary.BigEndian.Uint32(b[16:])
	copy(f.CreateDate[:], b[52:60])
	copy(f.ModifyDate[:], b[60:68])
	f.NameScript = binary.BigEndian.Uint16(b[68:])
	n := int(binary.BigEndian.Uint16(b[70:]))
	if len(b) < 72+n {
		return f, fmt.Errorf("info fork: name size %d exceeds fork (%d bytes after header)", n, len(b)-72)
	}
	f.Name = append([]byte{}, b[72:72+n]...)
	rest := b[72+n:]
	if len(rest) == 0 {
		return f, nil // comment size omitted (some clients)
	}
	if len(rest) < 2 {
		return f, fmt.Errorf("info fork: %d stray byte after name", len(rest))
	}
	f.HasCommentSize = true
	cn := int(binary.BigEndian.Uint16(rest))
	if len(rest) != 2+cn {
		return f, fmt.Errorf("info fork: comment size %d but %d bytes follow", cn, len(rest)-2)
	}
	f.Comment = append([]byte{}, rest[2:]...)
	return f, nil
}

func ForkHeader(typ string, size uint32) []byte {
	b := make([]byte, 16)
	copy(b[0:4], typ)
	binary.BigEndian.PutUint32(b[12:], size)
	return b
}

func FlatHeader(forks uint16) []byte {
	b := make([]byte, 24)
	copy(b, "FILP")
	b[5] = 1
	binary.BigEndian.PutUint16(b[22:], forks)
	return b
}

// EncodeFFO builds the byte stream of a flattened file: header, INFO, DATA [, MACR].
func EncodeFFO(info InfoFork, data []byte, rsrc []byte, withRsrc bool) []byte {
	forks := uint16(2)
	if withRsrc {
		forks = 3
	}
	ib := info.Encode()
	out := FlatHeader(forks)
	out = append(out, ForkHeader("INFO", uint32(len(ib)))...)
	out = append(out, ib...)
	out = append(out, ForkHeader("DATA", uint32(len(data)))...)
	out = append(out, data...)
	if withRsrc {
		out = append(out, ForkHeader("MACR", uint32(len(rsrc)))...)
		out = append(out, rsrc...)
	}
	return out
}

// FFOHead is the decoded prefix of a flattened file stream up to and including the DATA fork header.
type FFOHead struct {
	Forks    int
	Info     InfoFork
	InfoSize int
	DataSize uint32
	Len      int // bytes consumed
}

// DecodeFFOHead strictly decodes the start of a flattened file object.
func DecodeFFOHead(b []byte) (FFOHead, error) {
	var h FFOHead
	if len(b) < 24+16 {
		return h, fmt.Errorf("flattened file object: only %d bytes", len(b))
	}
	if string(b[0:4]) != "FILP" {
		return h, fmt.Errorf("flattened file object: format %q", b[0:4])
	}
	if v := binary.BigEndian.Uint16(b[4:6]); v != 1 {
		return h, fmt.Errorf("flattened file object: version %d", v)
	}
	h.Forks = int(binary.BigEndian.Uint16(b[22:24]))
	if h.Forks != 2 && h.Forks != 3 {
		return h, fmt.Errorf("flattened file object: fork count %d", h.Forks)
	}
	p := b[24:]
	if string(p[0:4]) != "INFO" {
		return h, fmt.Errorf("flattened file object: first fork %q", p[0:4])
	}
	h.InfoSize = int(binary.BigEndian.Uint32(p[12:16]))
	p = p[16:]
	if len(p) < h.InfoSize+16 {
		return h, fmt.Errorf("flattened file object: info fork size %d but only %d bytes follow", h.InfoSize, len(p))
	}
	info, err := DecodeInfoFork(p[:h.InfoSize])
	if err != nil {
		return h, fmt.Errorf("flattened file object: %w", err)
	}
	h.Info = info
	p = p[h.InfoSize:]
	if string(p[0:4]) != "DATA" {
		return h, fmt.Errorf("flattened file object: fork after info is %q, want DATA (info fork size %d inconsistent?)", p[0:4], h.InfoSize)
	}
	h.DataSize = binary.BigEndian.Uint32(p[12:16])
	h.Len = 24 + 16 + h.InfoSize + 16
	return h, nil
}

// XferPreamble is the 16-byte hello on the transfer connection.
func XferPreamble(ref []byte, size uint32) []byte {
	b := make([]byte, 16)
	copy(b, "HTXF")
	copy(b[4:8], ref)
	binary.BigEndian.PutUint32(b[8:], size)
	return b
}

// ResumeData encodes a file-resume record ("RFLT") with a data-fork offset.
func ResumeData(dataOffset uint32, rsrcOffset uint32, withRsrc bool) []byte {
	n := 1
	if withRsrc {
		n = 2
	}
	b := make([]byte, 42)
	copy(b, "RFLT")
	b[5] = 1
	binary.BigEndian.PutUint16(b[40:], uint16(n))
	d := make([]byte, 16)
	copy(d, "DATA")
	binary.BigEndian.PutUint32(d[4:], dataOffset)
	b = append(b, d...)
	if withRsrc {
		m := make([]byte, 16)
		copy(m, "MACR")
		binary.BigEndian.PutUint32(m[4:], rsrcOffset)
		b = append(b, m...)
	}
	return b
}

// DecodeResumeData returns the data-fork offset of a resume record.
func DecodeResumeData(b []byte) (uint32, error) {
	if len(b) < 42 {
		return 0, fmt.Errorf("resume data of %d bytes", len(b))
	}
	if string(b[0:4]) != "RFLT" {
		return 0, fmt.Errorf("resume data format %q", b[0:4])
	}
	n := int(binary.BigEndian.Uint16(b[40:42]))
	if len(b) != 42+16*n {
		return 0, fmt.Errorf("resume data: fork count %d but %d bytes follow", n, len(b)-42)
	}
	for i := 0; i < n; i++ {
		e := b[42+16*i:]
		if string(e[0:4]) == "DATA" {
			return binary.BigEndian.Uint32(e[4:8]), nil
		}
	}
	return 0, fmt.Errorf("resume data without DATA entry")
}
