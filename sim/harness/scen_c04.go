package harness

import (
	"bytes"
	"fmt"
	"math/rand"
	"os"
	"path/filepath"
	"time"

	rp "github.com/jhalter/mobius/verifsim/refproto"
	"github.com/jhalter/mobius/verifsim/simrt"
)

// C04: nothing is served before a successful login (DESIGN §6 C04).

type c04Acct struct {
	Login, Pw string
}

func genC04(rng *rand.Rand, c *Case) {
	c.Cfg["policy"] = rng.Intn(3)
	c.Cfg["seg_c2s"] = rng.Intn(3)
	c.Cfg["observers"] = 1 + rng.Intn(3)
	c.Cfg["accounts"] = 1 + rng.Intn(3)
	c.Cfg["guest"] = rng.Intn(2)
	c.Cfg["guestpw"] = rng.Intn(3) / 2
	c.Cfg["acctseed"] = rng.Intn(1 << 30)
	// account history: 0 none, 1 "retired" renamed (new password), 2 password of "retired" changed, 3 "retired" deleted
	// 4: "retired" renamed to another spelling of the same file name ("/retired"), new password
	c.Cfg["history"] = rng.Intn(5)
	peers := 1 + rng.Intn(6)
	for i := 0; i < peers; i++ {
		// N: [handshake variant, credential variant, account index, first transaction type variant, tail length, seed, delay, banned,
		//     shape of the first transaction: 0 whole, 1 absent (close after the handshake), 2 cut short, 3 longer than a transaction may be]
		c.Ops = append(c.Ops, Op{C: i, K: "peer", N: []int{rng.Intn(8), rng.Intn(12), rng.Intn(3), rng.Intn(4), rng.Intn(6), rng.Intn(1 << 30), rng.Intn(80), rng.Intn(8) / 7, []int{0, 0, 0, 1, 2, 3}[rng.Intn(6)]}})
	}
}

func c04Accounts(cfg map[string]int) []c04Acct {
	rng := rand.New(rand.NewSource(int64(cfg["acctseed"])))
	var as []c04Acct
	for i := 0; i < cfg["accounts"]; i++ {
		login := fmt.Sprintf("user%d%s", i, randText(rng, rng.Intn(6)))
		if i%3 == 1 {
			// logins are byte strings: characters outside ASCII, and a byte pair that means one character in UTF-8
			// and two others in Mac Roman (the text encoding of the protocol's era)
			login += []string{"\xc3\xa9", "\xe2\x88\x86x", " \xc6\x92", "\xc3\xab\xc3\xab"}[(cfg["acctseed"]/2+i)%4]
		}
		n := []int{0, 1, 5, 8, 40, 72}[rng.Intn(6)]
		pw := make([]byte, n)
		rng.Read(pw)
		for j := range pw {
			if pw[j] == 0xff { // obfuscated form would be a NUL, which bcrypt's own key terminator makes ambiguous at 72 bytes
				pw[j] = 0x41
			}
		}
		as = append(as, c04Acct{login, string(pw)})
	}
	if cfg["guest"] == 1 {
		pw := ""
		if cfg["guestpw"] == 1 {
			pw = "guestpw"
		}
		as = append(as, c04Acct{"guest", pw})
	}
	return as
}

func runC04(w *World) {
	cfg := w.Case.Cfg
	accts := c04Accounts(cfg)
	// the password an administrator sets later; half of the time its first byte is 0xFF (0x00 on the wire, where a
	// single 0x00 byte means "password unchanged")
	newpw := []string{"newpw", "\xffnewpw"}[cfg["acctseed"]%2]
	all := rp.AllAccess().Without(rp.PNoAgreement)
	for _, a := range accts {
		w.AddAccount(a.Login, "Name of "+a.Login, a.Pw, all)
	}
	w.AddAccount("observer", "Observer", "obs", all)
	w.AddAccount("retired", "Retired", "oldpw", all)
	// account databases also contain accounts whose stored hash is unusable (hand-edited file, empty Password,
	// a hash damaged in transit): such an account has no password that matches, nobody may log in with it
	broken := []string{"", "plaintext-password", "$2a$04$tooshort", "$9z$04$6Yq/TIlgjSD.FbARwtYs9ODnkHawonu1TJ5W2jJKfhnHwBIQTk./y"}[cfg["acctseed"]%4]
	w.WriteFile("Users/broken.yaml", rp.AccountYAML("broken", "Broken", broken, all, ""))
	must(os.WriteFile(filepath.Join(w.FileRoot, "victim.txt"), []byte("do not delete"), 0644))
	w.WriteFile("Banlist.yaml", "\"10.77.0.99\": null\n")
	si := w.StartServer()
	if si.StartErr != nil {
		w.Violate("c04-start", "server did not start: %v", si.StartErr)
		return
	}
	before := SnapshotTree(w.Sandbox)
	no := cfg["observers"]
	var startQ simrt.WaitQ
	obsReady, peersDone := 0, 0
	npeers := len(w.Case.Ops)
	knownIDs := map[uint16]bool{}
	var observers []*Client

	for i := 0; i < no; i++ {
		idx := i
		c := w.NewClient(fmt.Sprintf("obs%d", i), fmt.Sprintf("10.1.0.%d", i+1))
		observers = append(observers, c)
		w.Sim.Go(fmt.Sprintf("o%d", i), true, func() {
			if !c.Login("observer", "obs", "", 0) || !c.Agree(c.Name, 0, 0, "") {
				w.Violate("c04-observer-login", "observer %d could not log in", idx)
			}
			knownIDs[c.MyUserID()] = true
			if idx == 0 && cfg["history"] != 0 {
				// an administrator retires credentials before the peers arrive: "the account's current password"
				var rep rp.Tran
				var ok bool
				switch cfg["history"] {
				case 1:
					rep, ok = c.UpdateUsers([]UserEdit{{Kind: "rename", Login: "retired", NewLogin: "renamed", Name: "Renamed", Access: all, PwMode: PwNew, Pw: newpw}})
				case 4:
					rep, ok = c.UpdateUsers([]UserEdit{{Kind: "rename", Login: "retired", NewLogin: "/retired", Name: "Respelled", Access: all, PwMode: PwNew, Pw: newpw}})
				case 2:
					rep, ok = c.SetUser("retired", "Retired", all, PwNew, newpw)
				case 3:
					rep, ok = c.DeleteUser("retired")
				}
				if !ok || rep.Err != 0 {
					w.Violate("c04-admin-edit-refused", "account edit %d refused: %s", cfg["history"], fieldStr(rep, rp.FError))
				}
				w.Probe(fmt.Sprintf("account_history_%d", cfg["history"]))
				before = SnapshotTree(w.Sandbox)
			}
			obsReady++
			simrt.Wake(&startQ)
			for obsReady < no {
				simrt.Park(&startQ)
			}
			// keep broadcasts, chat and user-change notices in flight while the peers authenticate
			orng := rand.New(rand.NewSource(w.Case.Seed ^ int64(idx+1)*1299709))
			for round := 0; round < 40 && peersDone < npeers; round++ {
				switch orng.Intn(3) {
				case 0:
					c.Request(rp.TChatSend, rp.FS(rp.FData, fmt.Sprintf("observer-chat-%d-%d", idx, round)))
				case 1:
					c.Do(rp.TUserBroadcast, rp.FS(rp.FData, fmt.Sprintf("observer-broadcast-%d-%d", idx, round)))
				case 2:
					c.Request(rp.TSetClientUserInfo, rp.FS(rp.FUserName, c.Name), rp.F16(rp.FUserIconID, uint16(round)))
				}
				c.Do(rp.TKeepAlive)
				Delay(orng.Intn(12))
			}
			for peersDone < npeers {
				simrt.Park(&startQ)
			}
			Settle()
		})
	}

	type peerRes struct {
		op        Op
		hsValid   bool
		wantLogin bool
		banned    bool
		firstID   uint32
		c         *Client
		tailChat  string
		noFirst   bool // the first transaction was never sent whole
		sentTail  int
		desc      string
	}
	var results []*peerRes
	for _, op := range w.Case.Ops {
		op := op
		pr := &peerRes{op: op}
		results = append(results, pr)
		ip := fmt.Sprintf("10.77.0.%d", op.C+1)
		if op.N[7] == 1 {
			ip = "10.77.0.99"
			pr.banned = true
		}
		c := w.NewClient(fmt.Sprintf("peer%d", op.C), ip)
		pr.c = c
		w.Sim.Go(fmt.Sprintf("p%d", op.C), true, func() {
			defer func() { peersDone++; simrt.Wake(&startQ) }()
			for obsReady < no {
				simrt.Park(&startQ)
			}
			rng := rand.New(rand.NewSource(int64(op.N[5])))
			Delay(op.N[6])
			c.Connect()
			// handshake variants
			hs := rp.Handshake()
			pr.hsValid = true
			switch op.N[0] {
			case 0:
				hs[0] = 'X'
				pr.hsValid = false
			case 1:
				hs[5] = 'X'
				pr.hsValid = false
			case 2:
				hs = hs[:rng.Intn(12)]
				pr.hsValid = false
			case 3:
				hs[9], hs[11] = byte(rng.Intn(256)), byte(rng.Intn(256)) // other version numbers are accepted
			}
			// credentials around the truth
			acct := accts[op.N[2]%len(accts)]
			login, pw := acct.Login, acct.Pw
			match := true
			switch op.N[1] {
			case 0, 1, 2: // exact
			case 3:
				if len(pw) > 0 {
					b := []byte(pw)
					b[rng.Intn(len(b))] ^= 1 << uint(rng.Intn(8))
					pw, match = string(b), false
				} else {
					pw, match = "x", false
				}
			case 4:
				if len(pw) > 0 {
					pw, match = pw[:len(pw)-1], false
				}
			case 5:
				other := accts[(op.N[2]+1)%len(accts)]
				if other.Pw != pw {
					pw, match = other.Pw, false
				}
			case 6:
				login = "" // means guest
				match = false
				for _, a := range accts {
					if a.Login == "guest" {
						match = a.Pw == pw
					}
				}
			case 7:
				login, match = login+"x", false
			case 9:
				login, match = "broken", false
				if rng.Intn(2) == 0 {
					pw = ""
				}
			case 10: // the credentials that were valid before the administrator's edit
				login, pw, match = "retired", "oldpw", cfg["history"] == 0
			case 11: // the credentials the edit established
				login, pw = "retired", newpw
				if cfg["history"] == 1 {
					login = "renamed"
				}
				if cfg["history"] == 4 {
					login = "/retired"
				}
				match = cfg["history"] == 1 || cfg["history"] == 2 || cfg["history"] == 4
			case 8:
				if len(pw) < 72 { // beyond 72 bytes bcrypt ignores the rest: outside the property's quantifier
					pw, match = pw+"\x00", false
				}
			}
			pr.wantLogin = pr.hsValid && match && !pr.banned
			pr.desc = fmt.Sprintf("handshake variant %d, credentials variant %d (login %q, %d-byte password, match=%v), banned=%v", op.N[0], op.N[1], login, len(pw), match, pr.banned)
			typ := []uint16{rp.TLogin, rp.TLogin, rp.TChatSend, rp.TGetUserNameList}[op.N[3]]
			pr.firstID = 1000 + uint32(op.C)
			first := rp.Tran{Type: typ, ID: pr.firstID, Fields: []rp.Field{
				rp.F(rp.FUserLogin, rp.Obfuscate([]byte(login))), rp.F(rp.FUserPassword, rp.Obfuscate([]byte(pw))),
				rp.FS(rp.FUserName, c.Name), rp.F16(rp.FUserIconID, 5), rp.F16(rp.FVersion, 190)}}
			// everything is pipelined in one go: handshake, first transaction, tail
			buf := append(append([]byte{}, hs...), first.Encode()...)
			pr.tailChat = fmt.Sprintf("tail-chat-from-peer-%d", op.C)
			tail := []rp.Tran{
				{Type: rp.TChatSend, Fields: []rp.Field{rp.FS(rp.FData, pr.tailChat)}},
				{Type: rp.TOldPostNews, Fields: []rp.Field{rp.FS(rp.FData, "tail-post-"+c.Name)}},
				{Type: rp.TDeleteFile, Fields: []rp.Field{rp.FS(rp.FFileName, "victim.txt")}},
				{Type: rp.TNewUser, Fields: []rp.Field{rp.F(rp.FUserLogin, rp.Obfuscate([]byte("evil"+c.Name))), rp.FS(rp.FUserName, "evil"), rp.F(rp.FUserAccess, make([]byte, 8))}},
				{Type: rp.TUserBroadcast, Fields: []rp.Field{rp.FS(rp.FData, "tail-broadcast-"+c.Name)}},
				{Type: rp.TDownloadFile, Fields: []rp.Field{rp.FS(rp.FFileName, "victim.txt")}},
			}
			if op.N[0] == 2 {
				buf = hs // a short handshake is followed by nothing: more bytes would complete it
			}
			shape := 0
			if len(op.N) > 8 {
				shape = op.N[8]
			}
			if pr.hsValid && shape != 0 {
				// the first transaction never arrives whole: nobody is logged in, whatever accounts exist
				enc := first.Encode()
				switch shape {
				case 1:
					buf = append([]byte{}, hs...)
				case 2:
					buf = append(append([]byte{}, hs...), enc[:1+rng.Intn(len(enc)-1)]...)
				case 3:
					big := rp.Tran{Type: first.Type, ID: first.ID, Fields: append(append([]rp.Field{}, first.Fields...), rp.F(rp.FData, make([]byte, 65000)), rp.F(rp.FChatSubject, make([]byte, 30000)))}
					buf = append(append([]byte{}, hs...), big.Encode()...)
				}
				pr.wantLogin = false
				pr.noFirst = true
				pr.sentTail = 0
				pr.desc += fmt.Sprintf(", first transaction shape %d", shape)
				w.Probe(fmt.Sprintf("first_transaction_shape_%d", shape))
				_ = c.SendRaw(buf)
				Delay(rng.Intn(30))
				c.Disconnect()
				return
			}
			if pr.hsValid {
				for k := 0; k < op.N[4] && k < len(tail); k++ {
					t := tail[(k+op.C)%len(tail)]
					t.ID = 2000 + uint32(k)
					buf = append(buf, t.Encode()...)
					pr.sentTail++
				}
			}
			_ = c.SendRaw(buf)
			if pr.wantLogin {
				// a client that is logged in behaves: wait for the reply, then leave
				c.Reply(pr.firstID, defTimeout)
				SettleShort()
				return
			}
			// wait for the server to close (or give up after the ban notice delay etc.)
			c.WaitFor(func() bool { return c.Closed }, 30*time.Second)
		})
	}
	w.Sim.Run()

	after := SnapshotTree(w.Sandbox)
	anyLoggedIn := false
	for _, pr := range results {
		c := pr.c
		rep := c.Replies[pr.firstID]
		loggedIn := len(rep) > 0 && rep[0].T.Err == 0
		if loggedIn {
			anyLoggedIn = true
		}
		if loggedIn != pr.wantLogin {
			if loggedIn {
				w.Violate("c04-login-accepted", "peer %d was logged in but must not be: %s", pr.op.C, pr.desc)
			} else if c.FrameErr == nil {
				w.Violate("c04-login-refused", "peer %d should be logged in but was not (%d replies, closed=%v): %s", pr.op.C, len(rep), c.Closed, pr.desc)
			}
			continue
		}
		if pr.wantLogin {
			continue
		}
		// not logged in: what may it have received?
		if !pr.hsValid {
			if len(c.HSReply)+len(c.Raw) != 0 {
				w.Violate("c04-reply-to-bad-handshake", "peer %d sent an invalid handshake but received %d bytes", pr.op.C, len(c.HSReply)+len(c.Raw))
			}
			continue
		}
		if pr.noFirst {
			if len(c.AllRecv) != 0 && !(pr.banned && len(c.AllRecv) == 1 && c.AllRecv[0].T.IsReply == 0) {
				w.Violate("c04-traffic-to-unauthenticated-peer", "peer %d never sent a whole first transaction but received %d transactions (%s)", pr.op.C, len(c.AllRecv), pr.desc)
			}
			continue
		}
		if pr.banned && len(c.HSReply)+len(c.Raw) == 0 {
			continue // closed silently by the per-address rate limiter (two peers from the banned address within 2 s)
		}
		if !bytes.Equal(c.HSReply, rp.HandshakeOK) {
			w.Violate("c04-handshake-reply", "peer %d: handshake reply %x", pr.op.C, c.HSReply)
			continue
		}
		if c.FrameErr != nil || c.parsed != len(c.Raw) {
			w.Violate("c04-malformed-answer", "peer %d: bytes after the handshake reply are not whole transactions: %v", pr.op.C, c.FrameErr)
			continue
		}
		if !c.Closed {
			w.Violate("c04-not-closed", "peer %d failed to log in but the server kept the connection open", pr.op.C)
		}
		if len(c.AllRecv) != 1 {
			kinds := ""
			for _, r := range c.AllRecv {
				kinds += fmt.Sprintf("%d/%d ", r.T.Type, r.T.IsReply)
			}
			sig := "c04-traffic-to-unauthenticated-peer"
			if len(c.AllRecv) == 0 {
				sig = "c04-no-answer-to-failed-login"
			}
			w.Violate(sig, "peer %d (not logged in) received %d transactions [type/reply: %s], allowed: exactly one error reply or ban notice (%s)", pr.op.C, len(c.AllRecv), kinds, pr.desc)
			continue
		}
		t := c.AllRecv[0].T
		if pr.banned {
			if t.IsReply != 0 || t.Type != rp.TServerMsg {
				w.Violate("c04-ban-notice", "banned peer %d received type %d reply=%d instead of one ban notice", pr.op.C, t.Type, t.IsReply)
			}
		} else if t.IsReply != 1 || t.ID != pr.firstID || t.Err == 0 {
			w.Violate("c04-error-reply", "peer %d: the single answer is not an error reply to its first transaction (type %d reply=%d id=%d err=%d)", pr.op.C, t.Type, t.IsReply, t.ID, t.Err)
		}
	}
	// other users must not receive anything attributable to a peer that is not logged in
	for _, o := range observers {
		for _, r := range o.Inbox {
			t := r.T
			d, _ := t.Get(rp.FData)
			for _, pr := range results {
				if !pr.wantLogin && (bytes.Contains(d, []byte(pr.tailChat)) || bytes.Contains(d, []byte("tail-broadcast-"+pr.c.Name)) || bytes.Contains(d, []byte("tail-post-"+pr.c.Name))) {
					w.Violate("c04-effect-before-login", "observer %d received %q, sent by peer %d which never logged in", o.Idx, Short(d), pr.op.C)
				}
			}
			if !anyLoggedIn && (t.Type == rp.TNotifyChangeUser || t.Type == rp.TNotifyDeleteUser) {
				id, _ := t.Get(rp.FUserID)
				if v, ok := rp.Int(id); ok && !knownIDs[uint16(v)] {
					w.Violate("c04-presence-notice-for-unauthenticated-peer", "observer %d received transaction %d about user id %d, which belongs to a connection that never logged in", o.Idx, t.Type, v)
				}
			}
		}
	}
	if !anyLoggedIn {
		delete(before, "config/Banlist.yaml")
		delete(after, "config/Banlist.yaml")
		if d := DiffTrees(before, after); len(d) > 0 {
			w.Violate("c04-state-changed-before-login", "no peer logged in, yet server state changed: %v", d[:min(len(d), 5)])
		}
	}
}

func init() {
	Register(&Scenario{ID: "C04", Gen: genC04, Run: runC04})
}
