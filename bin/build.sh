#!/bin/bash
# Builds the simulator test binary from /repo's CURRENT working tree.
# usage: build.sh <outdir>   -> <outdir>/hlsim.test
# exit 2 on any infrastructure problem.
set -u
OUT=${1:?outdir}
REPO=${VERIF_REPO:-/repo}
VERIF=$(cd "$(dirname "$0")/.." && pwd)
export GOFLAGS=-mod=mod GOPROXY=off GOSUMDB=off GOTOOLCHAIN=local CGO_ENABLED=0
GO=${VERIF_GO:-go1.26.8}
mkdir -p "$OUT" || exit 2
SRC="$OUT/src"
rm -rf "$SRC"; mkdir -p "$SRC" || exit 2
rsync -a --exclude .git --exclude '*.png' --exclude docs "$REPO"/ "$SRC"/ || exit 2
# simify (built on demand, cached in $VERIF/.cache)
SIMIFY="$VERIF/.cache/simify"
if [ ! -x "$SIMIFY" ] || [ "$VERIF/tools/simify/main.go" -nt "$SIMIFY" ]; then
  mkdir -p "$VERIF/.cache"
  (cd "$VERIF/tools/simify" && $GO build -o "$SIMIFY" .) || { echo "build.sh: cannot build simify" >&2; exit 2; }
fi
"$SIMIFY" "$SRC" >"$OUT/simify.log" 2>&1 || { cat "$OUT/simify.log" >&2; exit 2; }
mkdir -p "$SRC/verifsim" && rsync -a "$VERIF/sim"/ "$SRC/verifsim"/ || exit 2
cd "$SRC" || exit 2
$GO mod edit -require=github.com/anishathalye/porcupine@v1.3.0 >/dev/null 2>&1
if ! $GO test -c -tags verif -o "$OUT/hlsim.test" ./verifsim/harness >"$OUT/build.log" 2>&1; then
  echo "build.sh: build of instrumented copy failed:" >&2
  tail -40 "$OUT/build.log" >&2
  exit 2
fi
rm -rf "$SRC"
exit 0
