package harness

import (
	"math/rand"

	rp "github.com/jhalter/mobius/verifsim/refproto"
)

// Request catalogue: for each of the 43 registered request types the fields a well-formed
// request carries (from the protocol document).  Used to generate valid requests (C05) and
// field-mutated hostile variants (C03, C04).

type fieldSpec struct {
	ID   uint16
	Kind string // name, path, uid, chatid, opt16, int32, data, text, login, pass, access, resume, newspath, artid, flav, cat
}

type reqSpec struct {
	Type   uint16
	Name   string
	Fields []fieldSpec
}

var Catalogue = []reqSpec{
	{rp.TGetMsgs, "get-messages", nil},
	{rp.TOldPostNews, "post-board", []fieldSpec{{rp.FData, "text"}}},
	{rp.TChatSend, "chat", []fieldSpec{{rp.FData, "text"}, {rp.FChatOptions, "opt16"}, {rp.FChatID, "chatid"}}},
	{rp.TSendInstantMsg, "private-message", []fieldSpec{{rp.FUserID, "uid"}, {rp.FOptions, "opt16"}, {rp.FData, "text"}, {rp.FQuotingMsg, "text"}}},
	{rp.TDisconnectUser, "disconnect-user", []fieldSpec{{rp.FUserID, "uid"}, {rp.FOptions, "opt16"}}},
	{rp.TInviteNewChat, "invite-new-chat", []fieldSpec{{rp.FUserID, "uid"}}},
	{rp.TInviteToChat, "invite-to-chat", []fieldSpec{{rp.FUserID, "uid"}, {rp.FChatID, "chatid"}}},
	{rp.TRejectChatInvite, "reject-invite", []fieldSpec{{rp.FChatID, "chatid"}}},
	{rp.TJoinChat, "join-chat", []fieldSpec{{rp.FChatID, "chatid"}}},
	{rp.TLeaveChat, "leave-chat", []fieldSpec{{rp.FChatID, "chatid"}}},
	{rp.TSetChatSubject, "set-subject", []fieldSpec{{rp.FChatID, "chatid"}, {rp.FChatSubject, "text"}}},
	{rp.TAgreed, "agreed", []fieldSpec{{rp.FUserName, "text"}, {rp.FUserIconID, "opt16"}, {rp.FOptions, "opt16"}, {rp.FAutomaticResponse, "text"}}},
	{rp.TGetFileNameList, "file-list", []fieldSpec{{rp.FFilePath, "path"}}},
	{rp.TDownloadFile, "download-file", []fieldSpec{{rp.FFileName, "name"}, {rp.FFilePath, "path"}, {rp.FFileResumeData, "resume"}, {rp.FFileTransferOptions, "opt16"}}},
	{rp.TUploadFile, "upload-file", []fieldSpec{{rp.FFileName, "name"}, {rp.FFilePath, "path"}, {rp.FFileTransferOptions, "opt16"}, {rp.FTransferSize, "int32"}}},
	{rp.TDeleteFile, "delete-file", []fieldSpec{{rp.FFileName, "name"}, {rp.FFilePath, "path"}}},
	{rp.TNewFolder, "new-folder", []fieldSpec{{rp.FFileName, "name"}, {rp.FFilePath, "path"}}},
	{rp.TGetFileInfo, "get-file-info", []fieldSpec{{rp.FFileName, "name"}, {rp.FFilePath, "path"}}},
	{rp.TSetFileInfo, "set-file-info", []fieldSpec{{rp.FFileName, "name"}, {rp.FFilePath, "path"}, {rp.FFileNewName, "name"}, {rp.FFileComment, "text"}}},
	{rp.TMoveFile, "move-file", []fieldSpec{{rp.FFileName, "name"}, {rp.FFilePath, "path"}, {rp.FFileNewPath, "path"}}},
	{rp.TMakeFileAlias, "make-alias", []fieldSpec{{rp.FFileName, "name"}, {rp.FFilePath, "path"}, {rp.FFileNewPath, "path"}}},
	{rp.TDownloadFldr, "download-folder", []fieldSpec{{rp.FFileName, "name"}, {rp.FFilePath, "path"}}},
	{rp.TDownloadBanner, "download-banner", nil},
	{rp.TUploadFldr, "upload-folder", []fieldSpec{{rp.FFileName, "name"}, {rp.FFilePath, "path"}, {rp.FTransferSize, "int32"}, {rp.FFolderItemCount, "opt16"}, {rp.FFileTransferOptions, "opt16"}}},
	{rp.TGetUserNameList, "user-list", nil},
	{rp.TGetClientInfoText, "client-info", []fieldSpec{{rp.FUserID, "uid"}}},
	{rp.TSetClientUserInfo, "set-client-info", []fieldSpec{{rp.FUserName, "text"}, {rp.FUserIconID, "opt16"}, {rp.FOptions, "opt16"}, {rp.FAutomaticResponse, "text"}}},
	{rp.TListUsers, "list-accounts", nil},
	{rp.TUpdateUser, "update-accounts", []fieldSpec{{rp.FData, "subfields"}}},
	{rp.TNewUser, "new-account", []fieldSpec{{rp.FUserLogin, "login"}, {rp.FUserPassword, "pass"}, {rp.FUserName, "text"}, {rp.FUserAccess, "access"}}},
	{rp.TDeleteUser, "delete-account", []fieldSpec{{rp.FUserLogin, "login"}}},
	{rp.TGetUser, "get-account", []fieldSpec{{rp.FUserLogin, "plainlogin"}}},
	{rp.TSetUser, "set-account", []fieldSpec{{rp.FUserLogin, "login"}, {rp.FUserPassword, "pass"}, {rp.FUserName, "text"}, {rp.FUserAccess, "access"}}},
	{rp.TUserBroadcast, "broadcast", []fieldSpec{{rp.FData, "text"}}},
	{rp.TGetNewsCatNameList, "news-categories", []fieldSpec{{rp.FNewsPath, "newspath"}}},
	{rp.TGetNewsArtNameList, "news-articles", []fieldSpec{{rp.FNewsPath, "newspath"}}},
	{rp.TDelNewsItem, "delete-news-item", []fieldSpec{{rp.FNewsPath, "newspath"}}},
	{rp.TNewNewsFldr, "new-news-bundle", []fieldSpec{{rp.FFileName, "cat"}, {rp.FNewsPath, "newspath"}}},
	{rp.TNewNewsCat, "new-news-category", []fieldSpec{{rp.FNewsCatName, "cat"}, {rp.FNewsPath, "newspath"}}},
	{rp.TGetNewsArtData, "get-article", []fieldSpec{{rp.FNewsPath, "newspath"}, {rp.FNewsArtID, "artid"}, {rp.FNewsArtDataFlav, "flav"}}},
	{rp.TPostNewsArt, "post-article", []fieldSpec{{rp.FNewsPath, "newspath"}, {rp.FNewsArtID, "artid"}, {rp.FNewsArtTitle, "text"}, {rp.FNewsArtFlags, "int32"}, {rp.FNewsArtDataFlav, "flav"}, {rp.FNewsArtData, "text"}}},
	{rp.TDelNewsArt, "delete-article", []fieldSpec{{rp.FNewsPath, "newspath"}, {rp.FNewsArtID, "artid"}, {rp.FNewsArtRecurseDel, "opt16"}}},
	{rp.TKeepAlive, "keep-alive", nil},
}

// valueEnv supplies plausible values for field kinds.
type valueEnv struct {
	UIDs    []uint16
	ChatIDs [][]byte
	Names   []string   // file / folder names that exist
	Paths   [][]string // folder paths that exist
	Logins  []string
	Cats    []string
}

func (e *valueEnv) value(rng *rand.Rand, kind string) []byte {
	pick := func(ss []string, def string) string {
		if len(ss) == 0 {
			return def
		}
		return ss[rng.Intn(len(ss))]
	}
	switch kind {
	case "name":
		return []byte(pick(e.Names, "nofile"))
	case "path":
		if len(e.Paths) == 0 || rng.Intn(2) == 0 {
			return rp.FilePath()
		}
		return rp.FilePath(e.Paths[rng.Intn(len(e.Paths))]...)
	case "uid":
		if len(e.UIDs) == 0 {
			return []byte{0, 1}
		}
		u := e.UIDs[rng.Intn(len(e.UIDs))]
		return []byte{byte(u >> 8), byte(u)}
	case "chatid":
		if len(e.ChatIDs) == 0 {
			return []byte{1, 2, 3, 4}
		}
		return e.ChatIDs[rng.Intn(len(e.ChatIDs))]
	case "opt16":
		return []byte{0, byte(rng.Intn(4))}
	case "int32":
		return []byte{0, 0, byte(rng.Intn(4)), byte(rng.Intn(256))}
	case "text", "data":
		return []byte(randText(rng, rng.Intn(40)))
	case "login":
		return rp.Obfuscate([]byte(pick(e.Logins, "nobody")))
	case "plainlogin":
		return []byte(pick(e.Logins, "nobody"))
	case "pass":
		return rp.Obfuscate([]byte(randText(rng, rng.Intn(8))))
	case "access":
		var a rp.Access
		for _, b := range rp.DefinedBits {
			if rng.Intn(3) == 0 {
				a.Set(b)
			}
		}
		return a[:]
	case "resume":
		return rp.ResumeData(uint32(rng.Intn(100)), 0, false)
	case "newspath":
		if len(e.Cats) == 0 || rng.Intn(3) == 0 {
			return rp.NewsPath()
		}
		return rp.NewsPath(e.Cats[rng.Intn(len(e.Cats))])
	case "cat":
		return []byte(pick(e.Cats, "cat") + randText(rng, 2))
	case "artid":
		return []byte{0, 0, 0, byte(rng.Intn(4))}
	case "flav":
		return []byte("text/plain")
	case "subfields":
		sub := []rp.Field{rp.F(rp.FUserLogin, rp.Obfuscate([]byte(pick(e.Logins, "nobody")))), rp.FS(rp.FUserName, "n"), rp.F(rp.FUserAccess, make([]byte, 8))}
		return subFields(sub)
	}
	return nil
}

// ValidRequest builds a well-formed request of the given spec.  optional: include optional fields at random.
func (e *valueEnv) ValidRequest(rng *rand.Rand, spec reqSpec) []rp.Field {
	var fs []rp.Field
	for _, f := range spec.Fields {
		fs = append(fs, rp.F(f.ID, e.value(rng, f.Kind)))
	}
	return fs
}

// Mutate returns a hostile variant of a field list.
func Mutate(rng *rand.Rand, fs []rp.Field) []rp.Field {
	out := append([]rp.Field{}, fs...)
	for k := 1 + rng.Intn(3); k > 0; k-- {
		switch rng.Intn(7) {
		case 0: // drop a field
			if len(out) > 0 {
				i := rng.Intn(len(out))
				out = append(out[:i:i], out[i+1:]...)
			}
		case 1: // wrong width / random data
			if len(out) > 0 {
				i := rng.Intn(len(out))
				n := []int{0, 1, 2, 3, 4, 5, 7, 8, 9, 41, 42, 255, 256, 4000}[rng.Intn(14)]
				b := make([]byte, n)
				rng.Read(b)
				out[i] = rp.Field{ID: out[i].ID, Data: b}
			}
		case 2: // duplicate
			if len(out) > 0 {
				out = append(out, out[rng.Intn(len(out))])
			}
		case 3: // unknown / foreign field id
			b := make([]byte, rng.Intn(12))
			rng.Read(b)
			out = append(out, rp.Field{ID: uint16(rng.Intn(400)), Data: b})
		case 4: // all 0xff / all zero
			if len(out) > 0 {
				i := rng.Intn(len(out))
				b := make([]byte, len(out[i].Data))
				if rng.Intn(2) == 0 {
					for j := range b {
						b[j] = 0xff
					}
				}
				out[i] = rp.Field{ID: out[i].ID, Data: b}
			}
		case 5: // truncate data
			if len(out) > 0 {
				i := rng.Intn(len(out))
				if l := len(out[i].Data); l > 0 {
					out[i] = rp.Field{ID: out[i].ID, Data: out[i].Data[:rng.Intn(l)]}
				}
			}
		case 6: // shuffle
			rng.Shuffle(len(out), func(a, b int) { out[a], out[b] = out[b], out[a] })
		}
	}
	return out
}

// CorruptFrame damages the framing of an encoded transaction.
func CorruptFrame(rng *rand.Rand, b []byte) []byte {
	o := append([]byte{}, b...)
	if len(o) < 22 {
		return o
	}
	put32 := func(off int, v uint32) {
		o[off], o[off+1], o[off+2], o[off+3] = byte(v>>24), byte(v>>16), byte(v>>8), byte(v)
	}
	total := uint32(len(o) - 20)
	switch rng.Intn(9) {
	case 0:
		put32(12, 0)
	case 1:
		put32(12, 1)
	case 2:
		put32(12, total-1)
	case 3:
		put32(12, total+1)
	case 4:
		put32(12, 0xffffffff)
	case 5:
		put32(12, 0xffffffec) // 20 + x wraps to 0
	case 6: // parameter count lies
		o[20], o[21] = 0xff, 0xff
	case 7: // a field length lies
		if len(o) >= 26 {
			o[24], o[25] = 0xff, 0xff
		}
	case 8: // cut anywhere
		o = o[:rng.Intn(len(o))]
	}
	return o
}
