package harness

import (
	"bytes"
	"encoding/binary"
	"fmt"
	"math/rand"
	"os"
	"path/filepath"
	"strings"
	"time"

	rp "github.com/jhalter/mobius/verifsim/refproto"
	"github.com/jhalter/mobius/verifsim/simrt"
)

// C07: all filesystem effects stay inside the file root / accounts directory (DESIGN §6 C07).

const canaryMark = "CANARY-7f3a"

// secretMark only ever appears inside files (and as a file name) outside the file root; the client never sends it.
const secretMark = "SECRET-q9z4"

var hostileSegs = []string{
	"..", ".", "/", "../..", "a/../../b", "", "/etc/passwd", "..\x00", "\x00", "..\xc9", "\xd6\xd6", ".. ", "..../", "..\\",
	"sub/../../../canary-" + canaryMark + ".txt", "../canary-" + canaryMark + ".txt", "../../outer-" + canaryMark + ".txt",
	"../config/Users/admin.yaml", "../config/secret-" + canaryMark + ".txt", "../canarydir-" + canaryMark, "../canarydir-" + canaryMark + "/inner.txt",
	"sub", "sub/deep", "file.txt", "Uploads", "new" + "x",
}

func hostileSeg(rng *rand.Rand) string {
	switch rng.Intn(12) {
	case 0:
		return strings.Repeat("A", 255)
	case 1:
		return strings.Repeat("../", 1+rng.Intn(5)) + "esc-" + fmt.Sprint(rng.Intn(100))
	case 2:
		return "/" + strings.Repeat("../", rng.Intn(4)) + "abs" + fmt.Sprint(rng.Intn(100))
	}
	return hostileSegs[rng.Intn(len(hostileSegs))]
}

func hostilePath(rng *rand.Rand) []byte {
	n := rng.Intn(4)
	var items []string
	for i := 0; i < n; i++ {
		items = append(items, hostileSeg(rng))
	}
	b := rp.FilePath(items...)
	switch rng.Intn(8) {
	case 0: // item count larger than the items present
		binary.BigEndian.PutUint16(b, uint16(n+1+rng.Intn(3)))
	case 1: // item length byte disagrees with the data
		if len(b) > 4 {
			b[4] = byte(rng.Intn(256))
		}
	case 2: // separator bytes carry data
		if len(b) > 3 {
			b[2], b[3] = '.', '.'
		}
	}
	return b
}

func genC07(rng *rand.Rand, c *Case) {
	c.Cfg["policy"] = 3
	c.Cfg["forks"] = rng.Intn(2)
	c.Cfg["acctroot"] = rng.Intn(3) / 2
	c.Cfg["rootslash"] = rng.Intn(2) // the root is configured in a spelling that is not clean ("/srv/files/", "/srv//files/.")
	c.Cfg["nest"] = 16 // deeper than any chain of ".." the hostile grammar can produce
	n := 6 + rng.Intn(30)
	kinds := []string{"alias-move", "list", "info", "setinfo", "delete", "move", "mkdir", "alias", "download", "upload", "fldr-download", "fldr-upload", "newuser", "renameuser", "deluser", "setuser", "restart"}
	for i := 0; i < n; i++ {
		c.Ops = append(c.Ops, Op{K: kinds[rng.Intn(len(kinds))], N: []int{rng.Intn(1 << 30)}})
	}
}

func runC07(w *World) {
	// the client's file root: the server-wide root, or a root of its own configured in the account (then the
	// server-wide root is outside for this client, like everything else)
	croot := w.FileRoot
	if w.Case.Cfg["acctroot"] == 1 {
		croot = filepath.Join(w.Sandbox, "home")
		must(os.MkdirAll(croot, 0755))
		must(os.WriteFile(filepath.Join(w.FileRoot, "shared-"+canaryMark+".txt"), []byte("server-wide root "+secretMark), 0644))
		must(os.MkdirAll(filepath.Join(w.FileRoot, "Uploads"), 0755))
		spelled := croot
		if w.Case.Cfg["rootslash"] == 1 {
			spelled = croot + "/"
		}
		w.WriteFile("Users/guest.yaml", rp.AccountYAML("guest", "Guest", HashPw(string(rp.Obfuscate(nil))), rp.AllAccess().With(rp.PNoAgreement), spelled))
		w.Probe("account_with_own_file_root")
	} else {
		w.AddAccount("guest", "Guest", "", rp.AllAccess().With(rp.PNoAgreement))
		if w.Case.Cfg["rootslash"] == 1 {
			w.Cfg.FileRoot = filepath.Dir(w.FileRoot) + "//" + filepath.Base(w.FileRoot) + "/."
			w.Probe("file_root_configured_in_unclean_spelling")
		}
	}
	w.WriteFile("Users/admin.yaml", rp.AccountYAML("admin", secretMark+"-admin-name", HashPw("zz"), rp.AllAccess(), ""))
	w.WriteFile("secret-"+canaryMark+".txt", "config secret "+secretMark)
	sandbox := w.Sandbox
	must(os.WriteFile(filepath.Join(sandbox, "canary-"+canaryMark+".txt"), []byte("sibling "+secretMark), 0644))
	must(os.MkdirAll(filepath.Join(sandbox, "canarydir-"+canaryMark), 0755))
	must(os.WriteFile(filepath.Join(sandbox, "canarydir-"+canaryMark, "inner.txt"), []byte("inner "+secretMark), 0644))
	must(os.WriteFile(filepath.Join(sandbox, "canarydir-"+canaryMark, "name-"+secretMark+".txt"), []byte("x"), 0644))
	must(os.WriteFile(filepath.Join(filepath.Dir(sandbox), "outer-"+canaryMark+".txt"), []byte("outer "+secretMark), 0644))
	must(os.MkdirAll(filepath.Join(croot, "sub", "deep"), 0755))
	must(os.MkdirAll(filepath.Join(croot, "Uploads"), 0755))
	must(os.WriteFile(filepath.Join(croot, "file.txt"), []byte("inside the root"), 0644))
	must(os.WriteFile(filepath.Join(croot, "sub", "deep", "d.txt"), []byte("deep inside"), 0644))
	w.StartServer()

	// everything outside the file root and the accounts directory must never change
	outside := func() map[string]string {
		m := SnapshotTree(w.Dir)
		rel, _ := filepath.Rel(w.Dir, w.Sandbox)
		for k := range m {
			if hasPrefixAny(k, rel+"/"+filepath.Base(croot)+"/", rel+"/config/Users/") || k == rel+"/"+filepath.Base(croot) || k == rel+"/config/Users" {
				delete(m, k)
			}
		}
		return m
	}
	before := outside()
	c := w.NewClient("mallory", "10.1.0.1")
	var streams [][]byte
	confined := func(step int, op Op, desc string) bool {
		now := outside()
		if d := DiffTrees(before, now); len(d) > 0 {
			w.Violate("c07-effect-outside-"+op.K, "step %d %s: %s changed files outside the file root / accounts directory: %v", step, op.K, desc, d[:min(len(d), 5)])
			return false
		}
		// account files only directly inside Users/, nothing nested or linked out
		for k, v := range SnapshotTree(filepath.Join(w.ConfigDir, "Users")) {
			if strings.Contains(k, "/") || v == "<dir>" || strings.HasPrefix(v, "<link>") {
				w.Violate("c07-accounts-dir-structure-"+op.K, "step %d %s: %s created %q inside the accounts directory", step, op.K, desc, k)
				return false
			}
		}
		// nothing inside the root may point outside
		for k, v := range SnapshotTree(croot) {
			if strings.HasPrefix(v, "<link>") {
				tgt := strings.TrimPrefix(v, "<link>")
				if !filepath.IsAbs(tgt) {
					tgt = filepath.Join(croot, filepath.Dir(k), tgt)
				}
				if rel, err := filepath.Rel(croot, filepath.Clean(tgt)); err != nil || rel == ".." || strings.HasPrefix(rel, "../") {
					w.Violate("c07-link-to-outside-"+op.K, "step %d %s: %s created a link %q -> %q that leaves the file root", step, op.K, desc, k, tgt)
					return false
				}
			}
		}
		return true
	}

	w.Sim.Go("c0", true, func() {
		if !c.Login("guest", "", c.Name, 1) {
			w.Violate("c07-login", "could not log in")
			return
		}
		for step, op := range w.Case.Ops {
			rng := rand.New(rand.NewSource(int64(op.N[0])))
			name := hostileSeg(rng)
			p1, p2 := hostilePath(rng), hostilePath(rng)
			desc := fmt.Sprintf("name %q path %q other %q", name, p1, p2)
			nf := []rp.Field{rp.FS(rp.FFileName, name), rp.F(rp.FFilePath, p1)}
			if rng.Intn(5) == 0 {
				nf = nf[:1] // no path field at all
			}
			switch op.K {
			case "list":
				c.Request(rp.TGetFileNameList, rp.F(rp.FFilePath, p1))
			case "info":
				c.Request(rp.TGetFileInfo, nf...)
			case "setinfo":
				f := append(append([]rp.Field{}, nf...), rp.FS(rp.FFileNewName, hostileSeg(rng)))
				if rng.Intn(2) == 0 {
					f = append(f, rp.FS(rp.FFileComment, "c"))
				}
				if rng.Intn(2) == 0 { // act on an existing file so that the rename really happens
					f[0] = rp.FS(rp.FFileName, []string{"file.txt", "sub", "Uploads"}[rng.Intn(3)])
					if len(f) > 1 && f[1].ID == rp.FFilePath {
						f[1] = rp.F(rp.FFilePath, rp.FilePath())
					}
				}
				c.Request(rp.TSetFileInfo, f...)
			case "delete":
				c.Request(rp.TDeleteFile, nf...)
			case "move":
				f := append(append([]rp.Field{}, nf...), rp.F(rp.FFileNewPath, p2))
				if rng.Intn(2) == 0 {
					f[0] = rp.FS(rp.FFileName, "file.txt")
					if len(f) > 2 {
						f[1] = rp.F(rp.FFilePath, rp.FilePath())
					}
				}
				c.Request(rp.TMoveFile, f...)
			case "mkdir":
				c.Request(rp.TNewFolder, nf...)
			case "alias":
				f := append(append([]rp.Field{}, nf...), rp.F(rp.FFileNewPath, p2))
				c.Request(rp.TMakeFileAlias, f...)
			case "download":
				rep, ok := c.Do(rp.TDownloadFile, nf...)
				if ref, has := rep.Get(rp.FRefNum); ok && has && rep.Err == 0 {
					if x := c.DialXfer(); x != nil {
						_, _ = x.Write(rp.XferPreamble(ref, 0))
						s, _ := ReadAllXfer(x, 8*time.Second)
						streams = append(streams, s)
						_ = x.Close()
					}
				}
			case "upload":
				f := append(append([]rp.Field{}, nf...), rp.F32(rp.FTransferSize, 10))
				rep, ok := c.Do(rp.TUploadFile, f...)
				if ref, has := rep.Get(rp.FRefNum); ok && has && rep.Err == 0 {
					c.SendStream(UploadStream(ref, hostileSeg(rng), []byte("uploaded!!"), nil, false, ""), -1, 0)
				}
			case "fldr-download":
				rep, ok := c.Do(rp.TDownloadFldr, nf...)
				if ref, has := rep.Get(rp.FRefNum); ok && has && rep.Err == 0 {
					if x := c.DialXfer(); x != nil {
						_, _ = x.Write(rp.XferPreamble(ref, 0))
						_, _ = x.Write([]byte{0, 3})
						var all []byte
						for i := 0; i < 12; i++ { // ask for every file
							s, err := ReadAllXfer(x, 2*time.Second)
							all = append(all, s...)
							if err != nil && !os.IsTimeout(err) {
								break
							}
							_, _ = x.Write([]byte{0, 1})
						}
						streams = append(streams, all)
						_ = x.Close()
					}
				}
			case "fldr-upload":
				f := []rp.Field{rp.FS(rp.FFileName, []string{"Uploads", "newfolder", name}[rng.Intn(3)]), rp.F32(rp.FTransferSize, 100), rp.F16(rp.FFolderItemCount, uint16(1+rng.Intn(3)))}
				if rng.Intn(2) == 0 {
					f = append(f, rp.F(rp.FFilePath, p1))
				}
				rep, ok := c.Do(rp.TUploadFldr, f...)
				if ref, has := rep.Get(rp.FRefNum); ok && has && rep.Err == 0 {
					if x := c.DialXfer(); x != nil {
						_, _ = x.Write(rp.XferPreamble(ref, 100))
						for i := 0; i < 3; i++ {
							if _, err := readN(x, 2); err != nil {
								break
							}
							var segs []string
							for k := 0; k < 1+rng.Intn(3); k++ {
								segs = append(segs, hostileSeg(rng))
							}
							isDir := rng.Intn(2) == 0
							hdr := folderItemHeaderSegs(segs, isDir)
							_, _ = x.Write(hdr)
							if !isDir {
								a, err := readN(x, 2)
								if err != nil {
									break
								}
								if a[1] == 1 {
									ffo := rp.EncodeFFO(rp.InfoFork{Name: []byte("n")}, []byte("folder item data"), nil, false)
									sz := make([]byte, 4)
									binary.BigEndian.PutUint32(sz, uint32(len(ffo)))
									_, _ = x.Write(append(sz, ffo...))
								}
							}
						}
						SettleShort()
						_ = x.Close()
					}
				}
			case "alias-move":
				// entirely ordinary names: an alias made deep in the tree is then moved to a shallower (or deeper) folder;
				// wherever it ends up it must still resolve inside the file root
				what := []string{"file.txt", "sub", "Uploads"}[rng.Intn(3)]
				dirs := [][]string{{}, {"sub"}, {"sub", "deep"}, {"Uploads"}}
				from, to := dirs[rng.Intn(len(dirs))], dirs[rng.Intn(len(dirs))]
				if what == "sub" && len(from) > 0 && from[0] == "sub" {
					from = []string{"Uploads"}
				}
				desc = fmt.Sprintf("alias of %q made in %v then moved to %v", what, from, to)
				c.Do(rp.TMakeFileAlias, rp.FS(rp.FFileName, what), rp.F(rp.FFilePath, rp.FilePath()), rp.F(rp.FFileNewPath, rp.FilePath(from...)))
				c.Do(rp.TMoveFile, rp.FS(rp.FFileName, what), rp.F(rp.FFilePath, rp.FilePath(from...)), rp.F(rp.FFileNewPath, rp.FilePath(to...)))
				c.Request(rp.TGetFileNameList, rp.F(rp.FFilePath, rp.FilePath(append(append([]string{}, to...), what)...)))
			case "newuser":
				c.NewUser(hostileSeg(rng), "n", "p", rp.AccessOf(rp.PReadChat))
			case "renameuser":
				c.NewUser(fmt.Sprintf("plain%d", step), "n", "p", rp.AccessOf(rp.PReadChat))
				c.UpdateUsers([]UserEdit{{Kind: "rename", Login: fmt.Sprintf("plain%d", step), NewLogin: hostileSeg(rng), Name: "n", PwMode: PwUnchanged}})
			case "deluser":
				if rng.Intn(2) == 0 {
					c.DeleteUser(hostileSeg(rng))
				} else {
					c.UpdateUsers([]UserEdit{{Kind: "delete", Login: hostileSeg(rng)}})
				}
			case "setuser":
				c.SetUser(hostileSeg(rng), "n", rp.AccessOf(rp.PReadChat), PwAbsent, "")
			case "restart":
				// whatever the earlier requests left in the accounts directory is loaded (and possibly repaired or
				// migrated) by the start-up code: that, too, must stay inside
				w.StopServer()
				simrt.Sleep(3 * time.Second)
				if si := w.StartServer(); si.StartErr != nil {
					// an account file the loader cannot digest is not a confinement question: counted, not judged here
					// (this probe is how the regression d10df29 was noticed; C15/C20 judge restartability)
					w.Probe("restart_refused_by_account_files")
					confined(step, op, desc)
					return
				}
				c.Conn = nil
				c.LoggedIn = false
				c.Closed = false
				c.FrameErr = nil
				if !c.Login("guest", "", c.Name, 1) {
					w.Violate("c07-relogin", "could not log in after the restart at step %d", step)
					return
				}
			}
			w.Probe("ops_" + op.K)
			if c.Closed {
				// a request that the server answered by dropping the connection: log in again
				c.Conn = nil
				c.LoggedIn = false
				simrt.Sleep(3 * time.Second)
				c.FrameErr = nil
				if !c.Login("guest", "", c.Name, 1) {
					w.Violate("c07-relogin", "could not log in again after step %d", step)
					return
				}
			} else {
				c.Do(rp.TKeepAlive) // fence: the request has been processed
			}
			if !confined(step, op, desc) {
				return
			}
		}
	})
	w.Sim.Run()
	// disclosure: no byte the client received may contain a canary marker
	leak := func(b []byte, where string) {
		if i := bytes.Index(b, []byte(secretMark)); i >= 0 {
			w.Violate("c07-disclosure", "%s contains data from outside the file root: %s", where, Short(b[max(0, i-30):min(len(b), i+40)]))
		}
	}
	for _, r := range c.AllRecv {
		for _, f := range r.T.Fields {
			leak(f.Data, fmt.Sprintf("reply/transaction type %d field %d", r.T.Type, f.ID))
		}
	}
	for _, s := range streams {
		leak(s, "a transfer stream")
	}
}

func folderItemHeaderSegs(items []string, dir bool) []byte {
	pb := []byte{}
	for _, it := range items {
		if len(it) > 255 {
			it = it[:255]
		}
		pb = append(pb, 0, 0, byte(len(it)))
		pb = append(pb, it...)
	}
	b := make([]byte, 6)
	binary.BigEndian.PutUint16(b[0:], uint16(4+len(pb)))
	if dir {
		b[3] = 1
	}
	binary.BigEndian.PutUint16(b[4:], uint16(len(items)))
	return append(b, pb...)
}

func init() {
	Register(&Scenario{ID: "C07", Gen: genC07, Run: runC07})
}
