// Package simsync replaces package sync in the instrumented copy of mobius.
// Mutex and RWMutex are scheduler-aware; everything else is the real thing.
package simsync

import (
	"fmt"
	"os"
	"sync"

	"github.com/jhalter/mobius/verifsim/simrt"
)

type (
	WaitGroup = sync.WaitGroup
	Cond      = sync.Cond
	Map       = sync.Map
	Pool      = sync.Pool
	Locker    = sync.Locker
)

// Debug enables wait-for diagnostics.
var Debug = os.Getenv("VERIF_DEBUG") != ""

func NewCond(l Locker) *Cond { return sync.NewCond(l) }

func OnceFunc(f func()) func() {
	var o Once
	return func() { o.Do(f) }
}

func OnceValue[T any](f func() T) func() T { return sync.OnceValue(f) }

func OnceValues[T1, T2 any](f func() (T1, T2)) func() (T1, T2) { return sync.OnceValues(f) }

// Once is sync.Once on a simulated mutex: a second caller parks with the scheduler while the first runs f (with the
// real sync.Once it would block natively while holding the scheduler's token).
type Once struct {
	done bool
	m    Mutex
}

func (o *Once) Do(f func()) {
	if o.done {
		return
	}
	o.m.Lock()
	defer o.m.Unlock()
	if !o.done {
		defer func() { o.done = true }()
		f()
	}
}

// Mutex is a simulated mutex: Lock is a scheduling point, waiters park with the scheduler.
type Mutex struct {
	locked bool
	owner  *simrt.Thread
	q      simrt.WaitQ
	hb     simrt.SyncObj
}

func (m *Mutex) Lock() {
	t := simrt.Self()
	if t == nil {
		return // setup / inspection code: all threads are parked
	}
	simrt.Yield("lock")
	for m.locked {
		if Debug {
			simrt.SetNote(fmt.Sprintf("mutex %p held by %s", m, m.owner.Name))
		}
		simrt.Park(&m.q)
	}
	if Debug {
		simrt.SetNote("")
	}
	m.locked = true
	m.owner = t
	simrt.LockHeld(1)
	m.hb.Acquire()
}

func (m *Mutex) TryLock() bool {
	t := simrt.Self()
	if t == nil {
		return true
	}
	if m.locked {
		return false
	}
	m.locked = true
	m.owner = t
	simrt.LockHeld(1)
	m.hb.Acquire()
	return true
}

func (m *Mutex) Unlock() {
	t := simrt.Self()
	if t == nil {
		return
	}
	if !m.locked {
		panic("sync: unlock of unlocked mutex")
	}
	m.hb.Release()
	m.locked = false
	m.owner = nil
	simrt.LockHeld(-1)
	simrt.Wake(&m.q)
}

// RWMutex is a simulated reader/writer mutex (writer-preferring like the real one is not
// modelled; readers and writers simply contend).
type RWMutex struct {
	writer  bool
	readers int
	// waitingWriters: as in sync.RWMutex, a blocked Lock excludes new readers (so a recursive RLock can deadlock)
	waitingWriters int
	ownerName      string
	q              simrt.WaitQ
	hb             simrt.SyncObj
}

func (m *RWMutex) Lock() {
	if simrt.Self() == nil {
		return
	}
	simrt.Yield("lock")
	m.waitingWriters++
	for m.writer || m.readers > 0 {
		if Debug {
			simrt.SetNote(fmt.Sprintf("rwmutex %p writer=%v readers=%d held by %s", m, m.writer, m.readers, m.ownerName))
		}
		simrt.Park(&m.q)
	}
	m.waitingWriters--
	m.writer = true
	if t := simrt.Self(); t != nil {
		m.ownerName = t.Name
	}
	simrt.LockHeld(1)
	m.hb.Acquire()
}

func (m *RWMutex) Unlock() {
	if simrt.Self() == nil {
		return
	}
	if !m.writer {
		panic("sync: Unlock of unlocked RWMutex")
	}
	m.hb.Release()
	m.writer = false
	simrt.LockHeld(-1)
	simrt.Wake(&m.q)
}

func (m *RWMutex) RLock() {
	if simrt.Self() == nil {
		return
	}
	simrt.Yield("rlock")
	for m.writer || m.waitingWriters > 0 {
		simrt.Park(&m.q)
	}
	m.readers++
	simrt.LockHeld(1)
	m.hb.Acquire()
}

func (m *RWMutex) RUnlock() {
	if simrt.Self() == nil {
		return
	}
	if m.readers <= 0 {
		panic("sync: RUnlock of unlocked RWMutex")
	}
	// readers do not order each other, but a later writer must see them
	m.hb.Release()
	m.readers--
	simrt.LockHeld(-1)
	if m.readers == 0 {
		simrt.Wake(&m.q)
	}
}

func (m *RWMutex) TryLock() bool {
	if simrt.Self() == nil {
		return true
	}
	if m.writer || m.readers > 0 {
		return false
	}
	m.writer = true
	simrt.LockHeld(1)
	m.hb.Acquire()
	return true
}

func (m *RWMutex) TryRLock() bool {
	if simrt.Self() == nil {
		return true
	}
	if m.writer {
		return false
	}
	m.readers++
	simrt.LockHeld(1)
	m.hb.Acquire()
	return true
}

func (m *RWMutex) RLocker() Locker { return rlocker{m} }

type rlocker struct{ m *RWMutex }

func (r rlocker) Lock()   { r.m.RLock() }
func (r rlocker) Unlock() { r.m.RUnlock() }
