#!/bin/bash
# Run once after a fresh restore (offline): builds simify and warms the Go build cache.
cd "$(dirname "$0")/.." || exit 1
T=$(mktemp -d /dev/shm/hlsim-setup-XXXX 2>/dev/null || mktemp -d)
bin/build.sh "$T"; rc=$?
rm -rf "$T"
exit $rc
