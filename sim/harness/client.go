package harness

import (
	"fmt"
	"time"

	rp "github.com/jhalter/mobius/verifsim/refproto"
	"github.com/jhalter/mobius/verifsim/simnet"
	"github.com/jhalter/mobius/verifsim/simrt"
)

// Recv is one transaction received by a client, stamped with the scheduler step.
type Recv struct {
	T    rp.Tran
	Step uint64
}

// Client is a simulated Hotline client built on the reference codec.
type Client struct {
	W           *World
	Idx         int
	Name        string
	IP          string
	Port        int
	Conn        *simnet.Conn
	Xfers       []*simnet.Conn
	Abandoned   []*simnet.Conn // transfer connections the client walked away from without closing them
	HSReply     []byte // bytes of the handshake answer (up to 8)
	Raw         []byte // everything received after the handshake answer
	parsed      int
	Inbox       []Recv            // non-reply transactions in arrival order
	Replies     map[uint32][]Recv // replies by transaction id (more than one = duplicate)
	AllRecv     []Recv
	FrameErr    error
	Closed      bool // server closed / reset the connection
	CloseErr    error
	ClosedAt    time.Duration
	q           simrt.WaitQ
	nextID      uint32
	Sent        map[uint32]uint16 // request id -> type
	SentNoReply []uint32
	SentStep    map[uint32]uint64
	UserID      uint16
	LoggedIn    bool
	Access      rp.Access
	reader      *simrt.Thread
	Final       []rp.User // scenario scratch: last user list fetched
}

// NewClient creates a client (not yet connected).
func (w *World) NewClient(name, ip string) *Client {
	w.portSeq++
	c := &Client{W: w, Idx: len(w.Clients), Name: name, IP: ip, Port: 40000 + w.portSeq,
		Replies: map[uint32][]Recv{}, Sent: map[uint32]uint16{}, SentStep: map[uint32]uint64{}, nextID: 1}
	w.Clients = append(w.Clients, c)
	return c
}

// Connect dials the control port and starts the reader thread.
func (c *Client) Connect() {
	srv := c.W.Srv
	if srv == nil || srv.L == nil {
		c.Closed = true
		return
	}
	c.Conn = c.W.Net.Dial(srv.L, c.IP, c.Port)
	c.Closed = false
	c.HSReply, c.Raw, c.parsed = nil, nil, 0
	conn := c.Conn
	c.reader = c.W.Sim.Go(fmt.Sprintf("c%d.reader", c.Idx), false, func() { c.readLoop(conn) })
}

func (c *Client) readLoop(conn *simnet.Conn) {
	buf := make([]byte, 65536)
	for {
		n, err := conn.Read(buf)
		if n > 0 && conn == c.Conn {
			b := buf[:n]
			if len(c.HSReply) < 8 {
				k := min(8-len(c.HSReply), len(b))
				c.HSReply = append(c.HSReply, b[:k]...)
				b = b[k:]
			}
			c.Raw = append(c.Raw, b...)
			c.parse()
			simrt.Wake(&c.q)
		}
		if err != nil {
			if conn == c.Conn {
				c.Closed = true
				c.CloseErr = err
				c.ClosedAt = c.W.Sim.Now()
				simrt.Wake(&c.q)
			}
			return
		}
	}
}

func (c *Client) parse() {
	for c.FrameErr == nil {
		t, n, err := rp.DecodeTran(c.Raw[c.parsed:])
		if err == rp.ErrShort {
			return
		}
		if err != nil {
			c.FrameErr = fmt.Errorf("at stream offset %d: %w", c.parsed, err)
			return
		}
		c.parsed += n
		r := Recv{T: t, Step: c.W.Sim.Step}
		c.AllRecv = append(c.AllRecv, r)
		if t.IsReply == 1 {
			c.Replies[t.ID] = append(c.Replies[t.ID], r)
		} else {
			c.Inbox = append(c.Inbox, r)
		}
	}
}

// SendRaw writes bytes on the control connection.
func (c *Client) SendRaw(b []byte) error {
	if c.Conn == nil {
		return fmt.Errorf("not connected")
	}
	_, err := c.Conn.Write(b)
	return err
}

// Handshake sends the hello and waits for the 8-byte answer.
func (c *Client) Handshake() bool {
	if c.SendRaw(rp.Handshake()) != nil {
		return false
	}
	return c.WaitFor(func() bool { return len(c.HSReply) >= 8 }, 30*time.Second) && string(c.HSReply) == string(rp.HandshakeOK)
}

// WaitFor parks until cond holds, the connection closes, or the simulated timeout passes.
func (c *Client) WaitFor(cond func() bool, timeout time.Duration) bool {
	deadline := c.W.Sim.Now() + timeout
	for {
		if cond() {
			return true
		}
		if c.Closed {
			return cond()
		}
		rem := deadline - c.W.Sim.Now()
		if rem <= 0 {
			return false
		}
		simrt.ParkTimeout(&c.q, rem)
	}
}

// Request sends a request transaction and returns its id.
func (c *Client) Request(typ uint16, fields ...rp.Field) uint32 {
	id := c.nextID
	c.nextID++
	t := rp.Tran{Type: typ, ID: id, Fields: fields}
	c.Sent[id] = typ
	c.SentStep[id] = c.W.Sim.Step
	_ = c.SendRaw(t.Encode())
	return id
}

// Reply waits for the reply to request id.
func (c *Client) Reply(id uint32, timeout time.Duration) (rp.Tran, bool) {
	ok := c.WaitFor(func() bool { return len(c.Replies[id]) > 0 }, timeout)
	if !ok {
		return rp.Tran{}, false
	}
	return c.Replies[id][0].T, true
}

const defTimeout = 60 * time.Second

// Do sends a request and waits for its reply.
func (c *Client) Do(typ uint16, fields ...rp.Field) (rp.Tran, bool) {
	return c.Reply(c.Request(typ, fields...), defTimeout)
}

// Login performs handshake + login (1.5+ flavour when name == "", else 1.2.3 flavour with name/icon in the login).
func (c *Client) Login(login, pw string, name string, icon uint16) bool {
	if c.Conn == nil {
		c.Connect()
	}
	if !c.Handshake() {
		return false
	}
	fields := []rp.Field{
		rp.F(rp.FUserLogin, rp.Obfuscate([]byte(login))),
		rp.F(rp.FUserPassword, rp.Obfuscate([]byte(pw))),
	}
	if name != "" {
		fields = append(fields, rp.FS(rp.FUserName, name), rp.F16(rp.FUserIconID, icon))
	} else {
		fields = append(fields, rp.F16(rp.FVersion, 190))
	}
	r, ok := c.Do(rp.TLogin, fields...)
	if !ok || r.Err != 0 {
		return false
	}
	c.LoggedIn = true
	// the user-access transaction tells us our privileges; our user id is not sent at login,
	// scenarios learn it from the user list.
	c.WaitFor(func() bool { return c.find(rp.TUserAccess) != nil }, defTimeout)
	if t := c.find(rp.TUserAccess); t != nil {
		if d, ok := t.Get(rp.FUserAccess); ok && len(d) == 8 {
			copy(c.Access[:], d)
		}
	}
	return true
}

// LoginCoalesced sends handshake and login transaction in ONE write (a client that does not wait for the
// handshake answer), then waits for both answers.
func (c *Client) LoginCoalesced(login, pw string, name string, icon uint16) bool {
	if c.Conn == nil {
		c.Connect()
	}
	fields := []rp.Field{
		rp.F(rp.FUserLogin, rp.Obfuscate([]byte(login))),
		rp.F(rp.FUserPassword, rp.Obfuscate([]byte(pw))),
	}
	if name != "" {
		fields = append(fields, rp.FS(rp.FUserName, name), rp.F16(rp.FUserIconID, icon))
	} else {
		fields = append(fields, rp.F16(rp.FVersion, 190))
	}
	id := c.nextID
	c.nextID++
	t := rp.Tran{Type: rp.TLogin, ID: id, Fields: fields}
	c.Sent[id] = rp.TLogin
	if c.SendRaw(append(rp.Handshake(), t.Encode()...)) != nil {
		return false
	}
	r, ok := c.Reply(id, defTimeout)
	if !ok || r.Err != 0 || string(c.HSReply) != string(rp.HandshakeOK) {
		return false
	}
	c.LoggedIn = true
	c.WaitFor(func() bool { return c.find(rp.TUserAccess) != nil }, defTimeout)
	return true
}

// LoginBurst sends handshake, login, (for the 1.5+ flow) the agreed transaction and two more requests in ONE
// write, without waiting for any answer in between - a byte stream like any other, which TCP may cut anywhere.
func (c *Client) LoginBurst(login, pw string, name string, icon uint16) bool {
	if c.Conn == nil {
		c.Connect()
	}
	fields := []rp.Field{
		rp.F(rp.FUserLogin, rp.Obfuscate([]byte(login))),
		rp.F(rp.FUserPassword, rp.Obfuscate([]byte(pw))),
	}
	var trans []rp.Tran
	if name != "" {
		fields = append(fields, rp.FS(rp.FUserName, name), rp.F16(rp.FUserIconID, icon))
		trans = append(trans, rp.Tran{Type: rp.TLogin, Fields: fields})
	} else {
		fields = append(fields, rp.F16(rp.FVersion, 190))
		trans = append(trans, rp.Tran{Type: rp.TLogin, Fields: fields})
		trans = append(trans, rp.Tran{Type: rp.TAgreed, Fields: []rp.Field{rp.FS(rp.FUserName, c.Name), rp.F16(rp.FUserIconID, icon), rp.F16(rp.FOptions, 0)}})
	}
	trans = append(trans, rp.Tran{Type: rp.TGetUserNameList}, rp.Tran{Type: rp.TKeepAlive})
	buf := rp.Handshake()
	var ids []uint32
	for _, t := range trans {
		t.ID = c.nextID
		c.nextID++
		c.Sent[t.ID] = t.Type
		ids = append(ids, t.ID)
		buf = append(buf, t.Encode()...)
	}
	if c.SendRaw(buf) != nil {
		return false
	}
	for _, id := range ids {
		r, ok := c.Reply(id, defTimeout)
		if !ok || r.Err != 0 {
			return false
		}
	}
	if string(c.HSReply) != string(rp.HandshakeOK) {
		return false
	}
	c.LoggedIn = true
	c.WaitFor(func() bool { return c.find(rp.TUserAccess) != nil }, defTimeout)
	return true
}

// Agree completes the 1.5+ login flow.
func (c *Client) Agree(name string, icon uint16, options uint16, autoReply string) bool {
	f := []rp.Field{rp.FS(rp.FUserName, name), rp.F16(rp.FUserIconID, icon), rp.F16(rp.FOptions, options)}
	if autoReply != "" {
		f = append(f, rp.FS(rp.FAutomaticResponse, autoReply))
	}
	r, ok := c.Do(rp.TAgreed, f...)
	return ok && r.Err == 0
}

func (c *Client) find(typ uint16) *rp.Tran {
	for i := range c.Inbox {
		if c.Inbox[i].T.Type == typ {
			return &c.Inbox[i].T
		}
	}
	return nil
}

// InboxOf returns the received non-reply transactions of one type.
func (c *Client) InboxOf(typ uint16) []Recv {
	var out []Recv
	for _, r := range c.Inbox {
		if r.T.Type == typ {
			out = append(out, r)
		}
	}
	return out
}

// UserList fetches the user list.
func (c *Client) UserList() ([]rp.User, bool) {
	r, ok := c.Do(rp.TGetUserNameList)
	if !ok {
		return nil, false
	}
	var us []rp.User
	for _, d := range r.GetAll(rp.FUsernameWithInfo) {
		u, err := rp.DecodeUser(d)
		if err != nil {
			c.W.Violate("malformed-user-record", "client %d: %v", c.Idx, err)
			return nil, false
		}
		us = append(us, u)
	}
	return us, true
}

// Disconnect closes the control connection from the client side.
func (c *Client) Disconnect() {
	if c.Conn != nil {
		_ = c.Conn.Close()
	}
}

// Settle lets everything else run until the system is idle (see DESIGN §2.2): the thread
// sleeps in simulated time, which only advances when no thread is ready.
func Settle()      { simrt.Sleep(4 * time.Second) }
func SettleShort() { simrt.Sleep(200 * time.Millisecond) }

// DialXfer opens a transfer connection.
func (c *Client) DialXfer() *simnet.Conn {
	if c.W.Srv == nil || c.W.Srv.LT == nil {
		return nil
	}
	c.W.portSeq++
	x := c.W.Net.Dial(c.W.Srv.LT, c.IP, 40000+c.W.portSeq)
	c.Xfers = append(c.Xfers, x)
	return x
}

// Delay gives up the token k times: the caller falls behind the other threads by a
// schedule-dependent amount without any simulated time passing.
func Delay(k int) {
	for i := 0; i < k; i++ {
		simrt.Yield("delay")
	}
}
