package refproto

import (
	"fmt"
	"sort"
	"strings"
	"unicode/utf8"
)

// Privilege numbers of the Hotline access bitmap (bit i counted from the most significant
// bit of the first byte), transcribed from the protocol document's access-privilege list,
// and the key each one has in a mobius account file, transcribed from the account files
// shipped with the server (cmd/mobius-hotline-server/mobius/config/Users/*.yaml).
// This table is deliberately NOT derived from hotline/access.go.
const (
	PDeleteFile       = 0
	PUploadFile       = 1
	PDownloadFile     = 2
	PRenameFile       = 3
	PMoveFile         = 4
	PCreateFolder     = 5
	PDeleteFolder     = 6
	PRenameFolder     = 7
	PMoveFolder       = 8
	PReadChat         = 9
	PSendChat         = 10
	POpenChat         = 11
	PCloseChat        = 12
	PShowInList       = 13
	PCreateUser       = 14
	PDeleteUser       = 15
	POpenUser         = 16
	PModifyUser       = 17
	PChangeOwnPass    = 18
	PNewsReadArt      = 20
	PNewsPostArt      = 21
	PDisconUser       = 22
	PCannotBeDiscon   = 23
	PGetClientInfo    = 24
	PUploadAnywhere   = 25
	PAnyName          = 26
	PNoAgreement      = 27
	PSetFileComment   = 28
	PSetFolderComment = 29
	PViewDropBoxes    = 30
	PMakeAlias        = 31
	PBroadcast        = 32
	PNewsDeleteArt    = 33
	PNewsCreateCat    = 34
	PNewsDeleteCat    = 35
	PNewsCreateFldr   = 36
	PNewsDeleteFldr   = 37
	PUploadFolder     = 38
	PDownloadFolder   = 39
	PSendPrivMsg      = 40
)

// AccessNames maps privilege number -> key in the account YAML file.
var AccessNames = map[int]string{
	PDeleteFile: "DeleteFile", PUploadFile: "UploadFile", PDownloadFile: "DownloadFile",
	PRenameFile: "RenameFile", PMoveFile: "MoveFile", PCreateFolder: "CreateFolder",
	PDeleteFolder: "DeleteFolder", PRenameFolder: "RenameFolder", PMoveFolder: "MoveFolder",
	PReadChat: "ReadChat", PSendChat: "SendChat", POpenChat: "OpenChat", PCloseChat: "CloseChat",
	PShowInList: "ShowInList", PCreateUser: "CreateUser", PDeleteUser: "DeleteUser",
	POpenUser: "OpenUser", PModifyUser: "ModifyUser", PChangeOwnPass: "ChangeOwnPass",
	PNewsReadArt: "NewsReadArt", PNewsPostArt: "NewsPostArt", PDisconUser: "DisconnectUser",
	PCannotBeDiscon: "CannotBeDisconnected", PGetClientInfo: "GetClientInfo",
	PUploadAnywhere: "UploadAnywhere", PAnyName: "AnyName", PNoAgreement: "NoAgreement",
	PSetFileComment: "SetFileComment", PSetFolderComment: "SetFolderComment",
	PViewDropBoxes: "ViewDropBoxes", PMakeAlias: "MakeAlias", PBroadcast: "Broadcast",
	PNewsDeleteArt: "NewsDeleteArt", PNewsCreateCat: "NewsCreateCat", PNewsDeleteCat: "NewsDeleteCat",
	PNewsCreateFldr: "NewsCreateFldr", PNewsDeleteFldr: "NewsDeleteFldr",
	PUploadFolder: "UploadFolder", PDownloadFolder: "DownloadFolder", PSendPrivMsg: "SendPrivMsg",
}

// DefinedBits lists the defined privilege numbers in ascending order.
var DefinedBits []int

func init() {
	for b := range AccessNames {
		DefinedBits = append(DefinedBits, b)
	}
	sort.Ints(DefinedBits)
}

// Access is the 8-byte bitmap as sent on the wire.
type Access [8]byte

func (a *Access) Set(i int)     { a[i/8] |= 0x80 >> uint(i%8) }
func (a *Access) Clear(i int)   { a[i/8] &^= 0x80 >> uint(i%8) }
func (a Access) Has(i int) bool { return a[i/8]&(0x80>>uint(i%8)) != 0 }
func AccessOf(bits ...int) Access {
	var a Access
	for _, b := range bits {
		a.Set(b)
	}
	return a
}

// AllAccess has every defined privilege.
func AllAccess() Access {
	var a Access
	for _, b := range DefinedBits {
		a.Set(b)
	}
	return a
}

func (a Access) Without(bits ...int) Access {
	for _, b := range bits {
		a.Clear(b)
	}
	return a
}

func (a Access) With(bits ...int) Access {
	for _, b := range bits {
		a.Set(b)
	}
	return a
}

// SubsetOf reports whether every bit of a (all 64) is also in b.
func (a Access) SubsetOf(b Access) bool {
	for i := range a {
		if a[i]&^b[i] != 0 {
			return false
		}
	}
	return true
}

func yamlQuote(s string) string {
	var sb strings.Builder
	sb.WriteByte('"')
	for i := 0; i < len(s); {
		r, n := utf8.DecodeRuneInString(s[i:])
		c := s[i]
		switch {
		case c == '"' || c == '\\':
			sb.WriteByte('\\')
			sb.WriteByte(c)
		case r == utf8.RuneError && n == 1, c < 0x20, c == 0x7f:
			// (a \xNN escape names the code point NN, not the byte: only right below 0x80; bytes that are not UTF-8
			// have no spelling in a YAML string and are not used by any scenario)
			fmt.Fprintf(&sb, "\\x%02x", c)
			n = 1
		default:
			sb.WriteString(s[i : i+n]) // characters outside ASCII are written as they are
		}
		i += n
	}
	sb.WriteByte('"')
	return sb.String()
}

// AccountYAML renders an account file in the named-flag format.
func AccountYAML(login, name, pwHash string, a Access, fileRoot string) string {
	var sb strings.Builder
	fmt.Fprintf(&sb, "Login: %s\nName: %s\nPassword: %s\nAccess:\n", yamlQuote(login), yamlQuote(name), yamlQuote(pwHash))
	for _, b := range DefinedBits {
		fmt.Fprintf(&sb, "    %s: %v\n", AccessNames[b], a.Has(b))
	}
	fmt.Fprintf(&sb, "FileRoot: %s\n", yamlQuote(fileRoot))
	return sb.String()
}

// AccountYAMLLegacy renders an account file in the pre-0.17 numeric-array format.
func AccountYAMLLegacy(login, name, pwHash string, a Access) string {
	var parts []string
	for _, x := range a {
		parts = append(parts, fmt.Sprint(int(x)))
	}
	return fmt.Sprintf("Login: %s\nName: %s\nPassword: %s\nAccess: [%s]\n", yamlQuote(login), yamlQuote(name), yamlQuote(pwHash), strings.Join(parts, ", "))
}
