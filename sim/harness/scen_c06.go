package harness

import (
	"fmt"
	"math/rand"
	"os"
	"path/filepath"
	"strings"
	"time"

	rp "github.com/jhalter/mobius/verifsim/refproto"
	"github.com/jhalter/mobius/verifsim/simrt"
	"gopkg.in/yaml.v3"
)

// C06: no privilege amplification; protected users cannot be kicked (DESIGN §6 C06).

func randAccess(rng *rand.Rand) rp.Access {
	var a rp.Access
	switch rng.Intn(4) {
	case 0:
		for i := 0; i < 64; i++ {
			if rng.Intn(2) == 0 {
				a.Set(i)
			}
		}
	case 1:
		for i := 0; i < 64; i++ {
			if rng.Intn(8) != 0 {
				a.Set(i)
			}
		}
	case 2:
		for i := 0; i < 64; i++ {
			if rng.Intn(8) == 0 {
				a.Set(i)
			}
		}
	case 3:
		a = rp.AllAccess()
	}
	return a
}

func accToInts(a rp.Access) []int {
	o := make([]int, 8)
	for i := range a {
		o[i] = int(a[i])
	}
	return o
}

func intsToAcc(v []int) rp.Access {
	var a rp.Access
	for i := 0; i < 8 && i < len(v); i++ {
		a[i] = byte(v[i])
	}
	return a
}

func genC06(rng *rand.Rand, c *Case) {
	c.Cfg["policy"] = rng.Intn(3)
	creators := 1 + rng.Intn(3)
	c.Cfg["creators"] = creators
	for ci := 0; ci < creators; ci++ {
		ca := randAccess(rng)
		ca.Set(rp.PCreateUser)
		c.Ops = append(c.Ops, Op{C: ci, K: "creator", N: accToInts(ca)})
		for j := 0; j < 3+rng.Intn(6); j++ {
			var req rp.Access
			switch rng.Intn(5) {
			case 0:
				req = randAccess(rng)
			case 1: // creator plus one bit (any of the 64)
				req = ca
				req.Set(rng.Intn(64))
			case 2: // creator minus one bit
				req = ca
				req.Clear(rng.Intn(64))
			case 3: // a subset
				req = ca
				for i := 0; i < 64; i++ {
					if rng.Intn(3) == 0 {
						req.Clear(i)
					}
				}
			case 4: // one bit the creator lacks, nothing else
				for tries := 0; tries < 64; tries++ {
					if b := rng.Intn(64); !ca.Has(b) {
						req.Set(b)
						break
					}
				}
			}
			// N: 8 access bytes, field length variant, path (0 new-user, 1 batch alone, 2 batch mixed)
			c.Ops = append(c.Ops, Op{C: ci, K: "create", N: append(accToInts(req), []int{8, 8, 8, 7, 9, 4, 16}[rng.Intn(7)], rng.Intn(3))})
		}
	}
	// disconnect attempts: N: [target kind (0 protected, 1 unprotected, 2 self, 3 unknown id), option]
	for j := 0; j < 1+rng.Intn(5); j++ {
		c.Ops = append(c.Ops, Op{C: 0, K: "kick", N: []int{rng.Intn(5), rng.Intn(3)}})
	}
}

func runC06(w *World) {
	cfg := w.Case.Cfg
	creators := cfg["creators"]
	cacc := make([]rp.Access, creators)
	for _, op := range w.Case.Ops {
		if op.K == "creator" && op.C < creators {
			cacc[op.C] = intsToAcc(op.N)
			// legacy array format: the only way an account file can carry undefined bits
			w.WriteFile(fmt.Sprintf("Users/creator%d.yaml", op.C), rp.AccountYAMLLegacy(fmt.Sprintf("creator%d", op.C), "Creator", HashPw(""), cacc[op.C]))
		}
	}
	w.AddAccount("kicker", "Kicker", "", rp.AllAccess().Without(rp.PCannotBeDiscon))
	w.AddAccount("protected", "Protected", "", rp.AccessOf(rp.PCannotBeDiscon, rp.PAnyName, rp.PReadChat))
	w.AddAccount("plain", "Plain", "", rp.AccessOf(rp.PAnyName, rp.PReadChat))
	w.AddAccount("existing", "Existing", "", rp.Access{})
	w.AddAccount("twice", "Twice", "", rp.AccessOf(rp.PAnyName, rp.PReadChat))
	si := w.StartServer()
	if si.StartErr != nil {
		w.Violate("c06-start", "server did not start: %v", si.StartErr)
		return
	}
	usersDir := filepath.Join(w.ConfigDir, "Users")
	probeSeq := 0
	readFileAccess := func(login string) (rp.Access, bool) {
		b, err := os.ReadFile(filepath.Join(usersDir, login+".yaml"))
		if err != nil {
			return rp.Access{}, false
		}
		var af c15File
		if yaml.Unmarshal(b, &af) != nil {
			return rp.Access{}, true
		}
		var a rp.Access
		for bit, key := range rp.AccessNames {
			if af.Access[key] {
				a.Set(bit)
			}
		}
		return a, true
	}

	for ci := 0; ci < creators; ci++ {
		idx := ci
		c := w.NewClient(fmt.Sprintf("creator%d", ci), fmt.Sprintf("10.1.0.%d", ci+1))
		w.Sim.Go(fmt.Sprintf("cr%d", ci), true, func() {
			if !c.Login(fmt.Sprintf("creator%d", idx), "", "", 0) || !c.Agree(c.Name, 0, 0, "") {
				w.Violate("c06-login", "creator %d could not log in", idx)
				return
			}
			n := 0
			for _, op := range w.Case.Ops {
				if op.K != "create" || op.C != idx {
					continue
				}
				n++
				req := intsToAcc(op.N[:8])
				flen := op.N[8]
				field := make([]byte, flen)
				copy(field, req[:])
				var eff rp.Access // what the server will read from a field of that length
				copy(eff[:], field)
				login := fmt.Sprintf("made%d_%d", idx, n)
				var rep rp.Tran
				var ok bool
				via := "new-user"
				switch op.N[9] {
				case 0:
					rep, ok = c.Do(rp.TNewUser, rp.F(rp.FUserLogin, rp.Obfuscate([]byte(login))), rp.FS(rp.FUserName, "Made"), rp.F(rp.FUserAccess, field), rp.F(rp.FUserPassword, rp.Obfuscate([]byte("pw"))))
				default:
					via = "update-user"
					sub := []rp.Field{rp.F(rp.FUserLogin, rp.Obfuscate([]byte(login))), rp.FS(rp.FUserName, "Made"), rp.F(rp.FUserAccess, field), rp.F(rp.FUserPassword, rp.Obfuscate([]byte("pw")))}
					fields := []rp.Field{rp.F(rp.FData, subFields(sub))}
					if op.N[9] == 2 && cacc[idx].Has(rp.PModifyUser) {
						// mixed with a modify entry for an existing account in the same request
						mod := []rp.Field{rp.F(rp.FUserLogin, rp.Obfuscate([]byte("existing"))), rp.FS(rp.FUserName, "Existing"), rp.F(rp.FUserAccess, make([]byte, 8)), rp.F(rp.FUserPassword, []byte{0})}
						fields = append([]rp.Field{rp.F(rp.FData, subFields(mod))}, fields...)
						via = "update-user (mixed batch)"
					}
					rep, ok = c.Do(rp.TUpdateUser, fields...)
				}
				if !ok {
					w.Violate("c06-create-unanswered", "creator %d: %s not answered (requested %x)", idx, via, req)
					return
				}
				w.Probe("creation_attempts")
				subset := eff.SubsetOf(cacc[idx])
				fa, exists := readFileAccess(login)
				if exists {
					w.Probe("accounts_created")
					// on disk
					if !fa.SubsetOf(cacc[idx]) {
						w.Violate("c06-amplification-on-disk", "creator %d (access %x) created %q via %s; the account file grants %x", idx, cacc[idx], login, via, fa)
						return
					}
					// as granted at login
					probeSeq++
					pc := w.NewClient(fmt.Sprintf("probe%d", probeSeq), fmt.Sprintf("10.4.%d.%d", idx, probeSeq%250+1))
					if pc.Login(login, "pw", "", 0) {
						if !pc.Access.SubsetOf(cacc[idx]) {
							w.Violate("c06-amplification-in-memory", "creator %d (access %x) created %q via %s; logging in as it is granted %x", idx, cacc[idx], login, via, pc.Access)
							return
						}
						if subset && pc.Access != eff {
							w.Violate("c06-created-access-differs", "creator %d asked for %x, the new account is granted %x", idx, eff, pc.Access)
							return
						}
					}
					pc.Disconnect()
					if rep.Err != 0 {
						w.Violate("c06-error-but-created", "creator %d: %s answered with an error but %q exists", idx, via, login)
						return
					}
				} else {
					if rep.Err == 0 {
						w.Violate("c06-ok-but-not-created", "creator %d: %s answered without error but no account file exists (requested %x, subset=%v)", idx, via, req, subset)
						return
					}
					if subset {
						w.Violate("c06-subset-refused", "creator %d (access %x) may create an account with %x (a subset) but was refused: %s", idx, cacc[idx], eff, fieldStr(rep, rp.FError))
						return
					}
					w.Probe("creation_refused")
				}
			}
		})
	}

	// ---- protected users ----
	prot := w.NewClient("protected-nick", "10.5.0.1")
	plain := w.NewClient("plain-nick", "10.5.0.2")
	kicker := w.NewClient("kicker-nick", "10.5.0.3")
	bansBefore := ""
	w.Sim.Go("kick", true, func() {
		if !prot.Login("protected", "", "", 0) || !prot.Agree(prot.Name, 0, 0, "") || !plain.Login("plain", "", "", 0) || !plain.Agree(plain.Name, 0, 0, "") || !kicker.Login("kicker", "", "", 0) || !kicker.Agree(kicker.Name, 0, 0, "") {
			w.Violate("c06-login", "kick scenario clients could not log in")
			return
		}
		protID, plainID, selfID := prot.MyUserID(), plain.MyUserID(), kicker.MyUserID()
		plainKicked := false
		if b, err := os.ReadFile(filepath.Join(w.ConfigDir, "Banlist.yaml")); err == nil {
			bansBefore = string(b)
		}
		for _, op := range w.Case.Ops {
			if op.K != "kick" || kicker.Closed {
				continue
			}
			switch op.N[0] {
			case 0:
				w.Probe("kick_protected")
				rep, ok := kicker.DisconnectUser(protID, op.N[1])
				simrt.Sleep(5 * time.Second)
				if prot.Closed {
					w.Violate("c06-protected-user-disconnected", "a user whose account is marked cannot-be-disconnected was disconnected by a disconnect request with option %d", op.N[1])
					return
				}
				if !ok || rep.Err == 0 {
					w.Violate("c06-protected-kick-not-refused", "disconnect request (option %d) against a protected user was not answered with an error", op.N[1])
					return
				}
				if banned, _ := si.Bans.IsBanned("10.5.0.1"); banned {
					w.Violate("c06-protected-user-banned", "the address of a protected user is in the ban list after a disconnect request with option %d", op.N[1])
					return
				}
				if b, _ := os.ReadFile(filepath.Join(w.ConfigDir, "Banlist.yaml")); strings.Contains(string(b), "10.5.0.1") {
					w.Violate("c06-protected-user-banned", "the ban file lists the address of a protected user")
					return
				}
				for _, o := range []*Client{plain, kicker} {
					for _, r := range o.InboxOf(rp.TNotifyDeleteUser) {
						if id, _ := r.T.Get(rp.FUserID); len(id) == 2 && uint16(id[0])<<8|uint16(id[1]) == protID {
							w.Violate("c06-protected-user-announced-left", "others were told the protected user left")
							return
						}
					}
				}
			case 4:
				// an account that is connected twice becomes protected while both sessions are up; the request then
				// aims at the second session
				t1 := w.NewClient("twice-a", "10.5.0.11")
				t2 := w.NewClient("twice-b", "10.5.0.12")
				if !t1.Login("twice", "", "", 0) || !t1.Agree(t1.Name, 0, 0, "") || !t2.Login("twice", "", "", 0) || !t2.Agree(t2.Name, 0, 0, "") {
					continue // the account may already be protected and busy from an earlier round; nothing to judge
				}
				t2ID := t2.MyUserID()
				if rep, ok := kicker.SetUser("twice", "Twice", rp.AccessOf(rp.PCannotBeDiscon, rp.PAnyName, rp.PReadChat), PwAbsent, ""); !ok || rep.Err != 0 {
					w.Violate("c06-set-user-refused", "marking an account cannot-be-disconnected failed: %s", fieldStr(rep, rp.FError))
					return
				}
				w.Probe("kick_second_session_of_freshly_protected_account")
				rep, ok := kicker.DisconnectUser(t2ID, op.N[1])
				simrt.Sleep(5 * time.Second)
				if t2.Closed || t1.Closed {
					w.Violate("c06-protected-user-disconnected", "an account was marked cannot-be-disconnected while connected twice; a disconnect request with option %d then closed a session of it (first closed=%v, second closed=%v)", op.N[1], t1.Closed, t2.Closed)
					return
				}
				if !ok || rep.Err == 0 {
					w.Violate("c06-protected-kick-not-refused", "disconnect request (option %d) against the second session of a protected account was not answered with an error", op.N[1])
					return
				}
				if banned, _ := si.Bans.IsBanned("10.5.0.12"); banned {
					w.Violate("c06-protected-user-banned", "the address of a protected user's second session is in the ban list after a disconnect request with option %d", op.N[1])
					return
				}
				t1.Disconnect()
				t2.Disconnect()
				simrt.Sleep(3 * time.Second)
			case 2:
				w.Probe("kick_self")
				kicker.DisconnectUser(selfID, 0)
				simrt.Sleep(3 * time.Second)
				if prot.Closed {
					w.Violate("c06-protected-user-disconnected", "protected user lost its connection when another user disconnected itself")
				}
				return
			case 3:
				w.Probe("kick_unknown_id")
				kicker.DisconnectUser(0x7777, op.N[1])
				simrt.Sleep(3 * time.Second)
				if prot.Closed || (plain.Closed && !plainKicked) {
					w.Violate("c06-bystander-disconnected", "a disconnect request for an unknown id closed another user's connection")
				}
				return
			case 1:
				// unprotected target, no ban option (keeps the ban file comparable); C17 judges the effect
				if !plain.Closed {
					plainKicked = true
					kicker.DisconnectUser(plainID, 0)
					simrt.Sleep(3 * time.Second)
				}
			}
		}
		_ = bansBefore
	})
	w.Sim.Run()
}

func init() {
	Register(&Scenario{ID: "C06", Gen: genC06, Run: runC06})
}
