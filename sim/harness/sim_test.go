package harness

import "testing"

// TestSim is the single entry point of the simulator binary; see engine.go (Main) for the
// environment variables that select property, tier, seed and worker slice.
func TestSim(t *testing.T) { Main(t) }
