// Package harness wires the real mobius server into the simulator and holds the
// scenarios and oracles of every property (DESIGN §2, §6).
package harness

import (
	"context"
	"fmt"
	"io"
	"log/slog"
	"math/rand"
	"os"
	"path/filepath"
	"sort"
	"strings"
	"time"

	"github.com/jhalter/mobius/hotline"
	"github.com/jhalter/mobius/internal/mobius"
	"github.com/jhalter/mobius/verifsim/refproto"
	"github.com/jhalter/mobius/verifsim/simfs"
	"github.com/jhalter/mobius/verifsim/simnet"
	"github.com/jhalter/mobius/verifsim/simrand"
	"github.com/jhalter/mobius/verifsim/simrt"
	"golang.org/x/crypto/bcrypt"
)

// Violation is one property violation found in a run.
type Violation struct {
	Prop string `json:"prop"`
	Sig  string `json:"sig"` // stable signature: class + site / shape
	Msg  string `json:"msg"`
}

// ServerInst is one incarnation of the server process.
type ServerInst struct {
	S        *hotline.Server
	Ctx      context.Context
	Cancel   context.CancelFunc
	L, LT    *simnet.Listener
	Board    *mobius.FlatNews
	Bans     *mobius.BanFile
	News     *mobius.ThreadedNewsYAML
	Accts    *mobius.YAMLAccountManager
	Agree    *mobius.Agreement
	StartErr error
}

// World is everything that exists in one simulated run.
type World struct {
	Case      *Case
	c09Expect map[string][]byte // C09: final path -> the bytes it must hold the instant it appears
	Sim       *simrt.Sim
	Net       *simnet.Net
	Rng       *rand.Rand // scenario-time choices (deterministic, drawn only by threads under the token or before Run)
	Dir       string
	Sandbox   string
	ConfigDir string
	FileRoot  string
	Cfg       hotline.Config
	Srv       *ServerInst
	AllSrv    []*ServerInst
	Clients   []*Client
	viol      []Violation
	Probes    map[string]int64
	Recorder  *simfs.Recorder
	portSeq   int
	Banner    []byte
	Acc       Acc
	over      map[string]int
	// AfterBubble holds checks that need the real clock (a search with a wall-clock timeout): they run after the
	// synctest bubble has ended, where time.After is real, and may still call Violate and Probe
	AfterBubble []func()
	meet        map[int]int
	meetQ       simrt.WaitQ
}

var runRoot string

// RunRoot returns the per-process scratch directory (on tmpfs when available).
func RunRoot() string {
	if runRoot != "" {
		return runRoot
	}
	base := os.Getenv("VERIF_SCRATCH")
	if base == "" {
		base = "/dev/shm"
		if st, err := os.Stat(base); err != nil || !st.IsDir() {
			base = os.TempDir()
		}
	}
	d, err := os.MkdirTemp(base, "hlsim-run-")
	if err != nil {
		panic(err)
	}
	runRoot = d
	return d
}

// Acc accumulates statistics over the sub-runs of one case (see Reset).
type Acc struct {
	Steps, Multi uint64
	SimTime      time.Duration
	Hash         uint64
	Net          simnet.Stats
	Leftover     int
	Ends         []string
	MaxReady     int
	SubRuns      int
}

// NewWorld creates the run directory, the simulator and the network.  Must run inside a bubble.
func NewWorld(c *Case) *World {
	w := &World{Case: c, Probes: map[string]int64{}, Banner: []byte("JPEGBANNERDATA-0123456789")}
	w.init(nil)
	return w
}

// Reset ends the current simulation (all threads exit) and starts a fresh one in the same
// bubble: new directory, scheduler, network, no server.  Violations, probes and statistics
// accumulate.  over overrides entries of Case.Cfg for the new sub-run.
func (w *World) Reset(over map[string]int) {
	w.finish()
	w.init(over)
}

// finish tears the current simulation down and folds its statistics into w.Acc.
func (w *World) finish() {
	if w.Sim == nil {
		return
	}
	a := &w.Acc
	a.Steps += w.Sim.Step
	a.Multi += w.Sim.MultiReady
	a.SimTime += w.Sim.Now()
	a.Hash = a.Hash*1099511628211 ^ w.Sim.Hash()
	a.MaxReady = max(a.MaxReady, w.Sim.MaxReady)
	a.Ends = append(a.Ends, w.Sim.EndCause)
	a.SubRuns++
	st := w.Net.Stats
	a.Net.Segments += st.Segments
	a.Net.ShortReads += st.ShortReads
	a.Net.Resets += st.Resets
	a.Net.Closes += st.Closes
	a.Net.Conns += st.Conns
	a.Net.BlockedWrites += st.BlockedWrites
	a.Net.BytesC2S += st.BytesC2S
	a.Net.BytesS2C += st.BytesS2C
	if w.Recorder != nil {
		w.Probes["fault_crash_images"] += int64(len(w.Recorder.Images))
		for k, v := range w.Recorder.Counts {
			w.Probes["fault_fs_"+k] += int64(v)
		}
	}
	if w.Sim.StallsFired > 0 {
		w.Probes["fault_stalled_goroutine"] += int64(w.Sim.StallsFired)
	}
	if len(w.Sim.MapRaces) > 0 {
		w.Probes["map_races_seen"] += int64(len(w.Sim.MapRaces))
	}
	a.Leftover += w.Teardown()
	w.Sim = nil
}

func (w *World) cfg(k string) int {
	if v, ok := w.over[k]; ok {
		return v
	}
	return w.Case.Cfg[k]
}

func (w *World) init(over map[string]int) {
	c := w.Case
	w.over = over
	dir := filepath.Join(RunRoot(), "w")
	_ = os.RemoveAll(dir)
	w.Dir = dir
	// cfg nest=k puts the sandbox k directory levels below w.Dir, so that paths climbing out of it with
	// up to k ".." components still land inside w.Dir, where the oracle of C07 sees them
	sb := dir
	for i := 0; i < w.cfg("nest"); i++ {
		sb = filepath.Join(sb, fmt.Sprintf("n%d", i))
	}
	w.Sandbox = filepath.Join(sb, "sandbox")
	w.ConfigDir = filepath.Join(w.Sandbox, "config")
	w.FileRoot = filepath.Join(w.Sandbox, "root")
	w.Rng = rand.New(rand.NewSource(c.Seed ^ 0x5eed))
	w.Srv, w.AllSrv, w.Clients, w.Recorder = nil, nil, nil, nil
	must(os.MkdirAll(filepath.Join(w.ConfigDir, "Users"), 0755))
	must(os.MkdirAll(w.FileRoot, 0755))
	pol := simrt.Policy(w.cfg("policy"))
	// the step cap means "no progress", not "long run": with function-entry scheduling points a run takes many more steps
	maxSteps := w.cfg("maxsteps")
	if maxSteps == 0 {
		maxSteps = 400000
	}
	if w.cfg("fnyield") != 0 {
		maxSteps *= 15
	}
	scfg := simrt.Config{
		Seed:      c.Seed,
		Policy:    pol,
		MaxSteps:  maxSteps,
		Grace:     time.Duration(w.cfg("grace_s")) * time.Second,
		TraceFull: w.cfg("trace") != 0,
	}
	scfg.HB = w.cfg("hb") != 0
	scfg.TrackAlloc = w.cfg("hb") != 0
	scfg.FnYield = w.cfg("fnyield") != 0
	scfg.Stalls, scfg.StallLen = w.cfg("stalls"), w.cfg("stall_len")
	if w.cfg("fifo_senders") != 0 {
		scfg.FIFOSubstr = ".outbox/go"
	}
	w.Sim = simrt.New(scfg)
	simrand.Seed(c.Seed ^ 0x7a11)
	w.Net = simnet.NewNet(w.Sim, c.Seed^0x4e37)
	w.Net.C2S = simnet.Seg(w.cfg("seg_c2s"))
	w.Net.S2C = simnet.Seg(w.cfg("seg_s2c"))
	w.Net.ShortReads = w.cfg("shortreads") != 0
	w.Net.SendBuf = w.cfg("sendbuf")
	if m := w.cfg("mss"); m > 0 {
		w.Net.MSS = m
	}
	w.Cfg = hotline.Config{
		Name:                  "simsrv",
		Description:           "simulated",
		FileRoot:              w.FileRoot,
		IgnoreFiles:           []string{`^\.`, `^@`},
		PreserveResourceForks: w.cfg("forks") != 0,
	}
	// default persistent state
	w.WriteFile("Agreement.txt", "This is an agreement.  Say you agree.\n")
	w.WriteFile("MessageBoard.txt", "")
	w.WriteFile("ThreadedNews.yaml", "Categories: {}\n")
}

func must(err error) {
	if err != nil {
		panic(err)
	}
}

// WriteFile writes a file below the config directory.
func (w *World) WriteFile(rel, content string) {
	p := filepath.Join(w.ConfigDir, rel)
	must(os.MkdirAll(filepath.Dir(p), 0755))
	must(os.WriteFile(p, []byte(content), 0644))
}

var hashCache = map[string]string{}

// HashPw returns a bcrypt hash (cost 4) of pw; cached per process because salts do not matter to the properties.
func HashPw(pw string) string {
	if h, ok := hashCache[pw]; ok {
		return h
	}
	b, err := bcrypt.GenerateFromPassword([]byte(pw), bcrypt.MinCost)
	must(err)
	hashCache[pw] = string(b)
	return string(b)
}

// AddAccount writes an account file (named-flag format) before the server starts.
func (w *World) AddAccount(login, name, pw string, a refproto.Access) {
	// the server stores the hash of the password as sent on the wire (obfuscated)
	w.WriteFile(filepath.Join("Users", login+".yaml"), refproto.AccountYAML(login, name, HashPw(string(refproto.Obfuscate([]byte(pw)))), a, ""))
}

// OperatorReload does what SIGHUP and POST /api/v1/reload do in cmd/mobius-hotline-server (its reloadFunc): the same
// four calls in the same order, on the running server's stores.
func (w *World) OperatorReload() {
	si := w.Srv
	if si == nil {
		return
	}
	if si.Board != nil {
		if err := si.Board.Reload(); err != nil {
			w.Violate("operator-reload-fails", "message board reload: %v", err)
		}
	}
	if si.Bans != nil {
		if err := si.Bans.Load(); err != nil {
			w.Violate("operator-reload-fails", "ban list reload: %v", err)
		}
	}
	if si.News != nil {
		if err := si.News.Load(); err != nil {
			w.Violate("operator-reload-fails", "threaded news reload: %v", err)
		}
	}
	if si.Agree != nil {
		if err := si.Agree.Reload(); err != nil {
			w.Violate("operator-reload-fails", "agreement reload: %v", err)
		}
	}
	w.Probe("fault_operator_reload")
}

// StartOperator starts a thread that reloads the configuration up to max times, delay scheduler steps apart, for as
// long as the simulation runs (it does not keep the simulation alive).
func (w *World) StartOperator(max, delay int) {
	if max <= 0 {
		return
	}
	w.Sim.Go("operator", false, func() {
		for k := 0; k < max; k++ {
			Delay(5 + delay)
			w.OperatorReload()
		}
	})
}

// Meet is a rendezvous: it returns when `parties` threads have called it with the same id, so that the requests they
// issue next enter the server at the same moment and race there.  A partner that never comes (it quit, or its op was
// removed by minimisation) is waited for 2 simulated seconds only.
func (w *World) Meet(id, parties int) {
	if w.meet == nil {
		w.meet = map[int]int{}
	}
	w.meet[id]++
	if w.meet[id] >= parties {
		simrt.Wake(&w.meetQ)
		w.Probe("rendezvous_met")
		return
	}
	for w.meet[id] < parties {
		if !simrt.ParkTimeout(&w.meetQ, 2*time.Second) {
			return
		}
	}
}

// ReloadDuring makes the operator reload the configuration k scheduler steps from now, i.e. while the request the
// caller is about to issue is in flight (faults are placed inside operations, not in idle time).
func (w *World) ReloadDuring(k int) {
	w.Sim.Go("operator", false, func() {
		Delay(k)
		w.OperatorReload()
	})
}

// StatsDuring makes the operator poll the server statistics (what GET /api/v1/stats does: Server.CurrentStats) k
// scheduler steps from now, i.e. while connections come and go.
func (w *World) StatsDuring(k int) {
	si := w.Srv
	if si == nil || si.S == nil {
		return
	}
	w.Sim.Go("operator-stats", false, func() {
		Delay(k)
		_ = si.S.CurrentStats()
		w.Probe("fault_operator_stats_poll")
	})
}

// Violate records a violation.
func (w *World) Violate(sig, format string, args ...any) {
	if len(w.viol) < 20 {
		w.viol = append(w.viol, Violation{Prop: w.Case.Prop, Sig: sig, Msg: fmt.Sprintf(format, args...)})
	}
}

func (w *World) Violations() []Violation { return w.viol }

// Probe counts that a rare condition was reached.
func (w *World) Probe(name string) { w.Probes[name]++ }

// BuildServer constructs a server from the config directory with the real constructors.
func (w *World) BuildServer() (*ServerInst, error) {
	si := &ServerInst{}
	logger := slog.New(slog.NewTextHandler(io.Discard, &slog.HandlerOptions{Level: slog.Level(100)}))
	srv, err := hotline.NewServer(hotline.WithLogger(logger), hotline.WithConfig(w.Cfg))
	if err != nil {
		return nil, err
	}
	si.S = srv
	if si.Board, err = mobius.NewFlatNews(filepath.Join(w.ConfigDir, "MessageBoard.txt")); err != nil {
		return si, fmt.Errorf("NewFlatNews: %w", err)
	}
	if si.Bans, err = mobius.NewBanFile(filepath.Join(w.ConfigDir, "Banlist.yaml")); err != nil {
		return si, fmt.Errorf("NewBanFile: %w", err)
	}
	if si.News, err = mobius.NewThreadedNewsYAML(filepath.Join(w.ConfigDir, "ThreadedNews.yaml")); err != nil {
		return si, fmt.Errorf("NewThreadedNewsYAML: %w", err)
	}
	if si.Accts, err = mobius.NewYAMLAccountManager(filepath.Join(w.ConfigDir, "Users/")); err != nil {
		return si, fmt.Errorf("NewYAMLAccountManager: %w", err)
	}
	if si.Agree, err = mobius.NewAgreement(w.ConfigDir, "\r"); err != nil {
		return si, fmt.Errorf("NewAgreement: %w", err)
	}
	srv.MessageBoard = si.Board
	srv.BanList = si.Bans
	srv.ThreadedNewsMgr = si.News
	srv.AccountManager = si.Accts
	srv.Agreement = si.Agree
	srv.Banner = w.Banner
	mobius.RegisterHandlers(srv)
	return si, nil
}

// StartServer builds and starts a server incarnation (listeners, outbox, keepalive).
func (w *World) StartServer() *ServerInst {
	si, err := w.BuildServer()
	if err != nil {
		if si == nil {
			si = &ServerInst{}
		}
		si.StartErr = err
		w.Srv = si
		return si
	}
	si.Ctx, si.Cancel = context.WithCancel(context.Background())
	si.L = w.Net.Listen(5500)
	si.LT = w.Net.Listen(5501)
	n := len(w.AllSrv)
	w.Sim.Go(fmt.Sprintf("srv%d.outbox", n), false, func() { si.S.VerifProcessOutbox() })
	w.Sim.Go(fmt.Sprintf("srv%d.keepalive", n), false, func() { si.S.VerifKeepaliveHandler(si.Ctx) })
	w.Sim.Go(fmt.Sprintf("srv%d.serve", n), false, func() { _ = si.S.Serve(si.Ctx, si.L) })
	w.Sim.Go(fmt.Sprintf("srv%d.xfer", n), false, func() { _ = si.S.ServeFileTransfers(si.Ctx, si.LT) })
	w.Srv = si
	w.AllSrv = append(w.AllSrv, si)
	return si
}

// StopServer models a process exit: the context is cancelled, listeners close, every
// connection is reset.  Only what is on disk survives.  Call from a simulated thread.
func (w *World) StopServer() {
	si := w.Srv
	if si == nil || si.S == nil || si.Cancel == nil {
		return
	}
	si.Cancel()
	// wake the accept loops: they return on ctx.Done / listener error
	si.L.Close()
	si.LT.Close()
	for _, c := range w.Clients {
		if c.Conn != nil {
			c.Conn.Reset()
		}
		for _, x := range c.Xfers {
			x.Reset()
		}
	}
	w.Srv = nil
}

// Teardown ends the run: all threads exit.  Returns the number of threads that did not stop.
func (w *World) Teardown() int {
	for _, si := range w.AllSrv {
		if si.Cancel != nil {
			si.Cancel()
		}
	}
	left := w.Sim.Shutdown(func() {
		for _, si := range w.AllSrv {
			if si.S == nil {
				continue
			}
			ob := si.S.VerifOutbox()
			// unblock senders and the dispatcher
			for i := 0; i < 64; i++ {
				select {
				case <-ob:
				case ob <- hotline.Transaction{}:
				default:
					i = 64
				}
			}
		}
	})
	simfs.SetRecorder(nil)
	return left
}

// SnapshotTree returns relative path -> content for a directory ("<dir>", "<link>target" markers).
func SnapshotTree(root string) map[string]string { return simfs.Snapshot(root) }

// DiffTrees describes the differences between two snapshots.
func DiffTrees(a, b map[string]string) []string {
	var out []string
	for k, v := range a {
		if bv, ok := b[k]; !ok {
			out = append(out, "removed "+k)
		} else if bv != v {
			out = append(out, "changed "+k)
		}
	}
	for k := range b {
		if _, ok := a[k]; !ok {
			out = append(out, "added "+k)
		}
	}
	sort.Strings(out)
	return out
}

// Short renders bytes for messages.
func Short(b []byte) string {
	s := fmt.Sprintf("%q", b)
	if len(s) > 80 {
		s = s[:77] + "..."
	}
	return s
}

func hasPrefixAny(s string, ps ...string) bool {
	for _, p := range ps {
		if strings.HasPrefix(s, p) {
			return true
		}
	}
	return false
}
