// simify rewrites a scratch copy of jhalter/mobius so that every source of
// nondeterminism goes through the simulator packages under verifsim/.
//
// usage: simify <module-root-of-scratch-copy>
//
// It is purely syntactic (go/ast); see DESIGN.md §2.1.
package main

import (
	"bytes"
	"fmt"
	"go/ast"
	"go/parser"
	"go/printer"
	"go/token"
	"os"
	"path/filepath"
	"strconv"
	"strings"
)

const modPath = "github.com/jhalter/mobius"
const simBase = modPath + "/verifsim/"

var pkgs = []string{"hotline", "internal/mobius"}

// os functions rewritten to simfs in internal/mobius (the persistent stores).
var fsFuncs = map[string]bool{
	"WriteFile": true, "Rename": true, "Remove": true, "OpenFile": true, "Create": true,
	"ReadFile": true, "Open": true, "Mkdir": true, "MkdirAll": true, "RemoveAll": true,
}

// in package hotline (file transfers) only the calls that do not hand out an *os.File are rewritten - the ones that
// publish, remove or create a name: they become scheduling points (and journal steps when a recorder watches the path)
var fsFuncsHotline = map[string]bool{
	"WriteFile": true, "Rename": true, "Remove": true, "Mkdir": true, "MkdirAll": true, "RemoveAll": true,
}

func main() {
	if len(os.Args) != 2 {
		fmt.Fprintln(os.Stderr, "usage: simify <root>")
		os.Exit(2)
	}
	root := os.Args[1]
	n := 0
	for _, p := range pkgs {
		dir := filepath.Join(root, p)
		ents, err := os.ReadDir(dir)
		if err != nil {
			fatal(err)
		}
		mapFields = map[string]bool{}
		for _, e := range ents {
			if name := e.Name(); strings.HasSuffix(name, ".go") && !strings.HasSuffix(name, "_test.go") {
				collectMapFields(filepath.Join(dir, name))
			}
		}
		for _, e := range ents {
			name := e.Name()
			if e.IsDir() || !strings.HasSuffix(name, ".go") {
				continue
			}
			full := filepath.Join(dir, name)
			if strings.HasSuffix(name, "_test.go") {
				// the repository's own tests are not part of the simulation (DESIGN §2.1)
				if err := os.Remove(full); err != nil {
					fatal(err)
				}
				continue
			}
			if err := rewriteFile(full, p); err != nil {
				fatal(fmt.Errorf("%s: %w", full, err))
			}
			n++
		}
	}
	fmt.Printf("simify: rewrote %d files\n", n)
}

// mapFields: names of struct fields declared with a map type in the package being rewritten.
var mapFields map[string]bool

func collectMapFields(path string) {
	fset := token.NewFileSet()
	f, err := parser.ParseFile(fset, path, nil, 0)
	if err != nil {
		return
	}
	ast.Inspect(f, func(n ast.Node) bool {
		st, ok := n.(*ast.StructType)
		if !ok {
			return true
		}
		for _, fld := range st.Fields.List {
			if _, isMap := fld.Type.(*ast.MapType); isMap {
				for _, nm := range fld.Names {
					mapFields[nm.Name] = true
				}
			}
		}
		return true
	})
}

// isMapExpr: e is x.f with f a map field, or such an expression indexed once (map of maps).
func isMapExpr(e ast.Expr) bool {
	switch x := e.(type) {
	case *ast.SelectorExpr:
		return mapFields[x.Sel.Name]
	case *ast.IndexExpr:
		if sel, ok := x.X.(*ast.SelectorExpr); ok {
			return mapFields[sel.Sel.Name]
		}
	case *ast.ParenExpr:
		return isMapExpr(x.X)
	}
	return false
}

type mapAcc struct {
	expr  ast.Expr
	write bool
	pos   token.Pos
}

// headerExprs returns the expressions evaluated by the statement itself (not by nested blocks).
func headerNodes(s ast.Stmt) []ast.Node {
	switch x := s.(type) {
	case *ast.IfStmt:
		var ns []ast.Node
		if x.Init != nil {
			ns = append(ns, x.Init)
		}
		return append(ns, x.Cond)
	case *ast.ForStmt:
		var ns []ast.Node
		if x.Init != nil {
			ns = append(ns, x.Init)
		}
		if x.Cond != nil {
			ns = append(ns, x.Cond)
		}
		return ns
	case *ast.RangeStmt:
		return []ast.Node{x.X}
	case *ast.SwitchStmt:
		var ns []ast.Node
		if x.Init != nil {
			ns = append(ns, x.Init)
		}
		if x.Tag != nil {
			ns = append(ns, x.Tag)
		}
		return ns
	case *ast.ExprStmt, *ast.AssignStmt, *ast.SendStmt, *ast.DeclStmt, *ast.IncDecStmt, *ast.ReturnStmt, *ast.DeferStmt:
		return []ast.Node{s}
	}
	return nil
}

func collectMapAccesses(s ast.Stmt) []mapAcc {
	var out []mapAcc
	writes := map[ast.Expr]bool{}
	mark := func(e ast.Expr) {
		if ix, ok := e.(*ast.IndexExpr); ok {
			writes[ix] = true
		}
	}
	for _, n := range headerNodes(s) {
		switch x := n.(type) {
		case *ast.AssignStmt:
			for _, l := range x.Lhs {
				mark(l)
			}
		case *ast.IncDecStmt:
			mark(x.X)
		}
		if rs, ok := s.(*ast.RangeStmt); ok && isMapExpr(rs.X) {
			out = append(out, mapAcc{expr: rs.X, write: false, pos: rs.Pos()})
		}
		ast.Inspect(n, func(m ast.Node) bool {
			switch y := m.(type) {
			case *ast.FuncLit:
				return false
			case *ast.IndexExpr:
				if isMapExpr(y.X) {
					out = append(out, mapAcc{expr: y.X, write: writes[y], pos: y.Pos()})
				}
			case *ast.CallExpr:
				if id, ok := y.Fun.(*ast.Ident); ok && id.Name == "delete" && len(y.Args) == 2 && isMapExpr(y.Args[0]) {
					out = append(out, mapAcc{expr: y.Args[0], write: true, pos: y.Pos()})
				}
			}
			return true
		})
	}
	return out
}

func fatal(err error) {
	fmt.Fprintln(os.Stderr, "simify:", err)
	os.Exit(2)
}

type rewriter struct {
	fset     *token.FileSet
	file     *ast.File
	pkg      string
	relname  string
	usedRT   bool
	usedFS   bool
	osName   string // local name of package "os" ("" if not imported)
	timeName string
	netName  string // local name of package "net" ("" if not imported)
	usedNet  bool
	mapFlds  map[string]bool // names of struct fields of map type declared in this package
}

func rewriteFile(path, pkg string) error {
	fset := token.NewFileSet()
	f, err := parser.ParseFile(fset, path, nil, parser.ParseComments)
	if err != nil {
		return err
	}
	rw := &rewriter{fset: fset, file: f, pkg: pkg, relname: pkg + "/" + filepath.Base(path)}

	for _, imp := range f.Imports {
		p, _ := strconv.Unquote(imp.Path.Value)
		local := filepath.Base(p)
		if imp.Name != nil {
			local = imp.Name.Name
		}
		switch p {
		case "sync":
			imp.Path.Value = strconv.Quote(simBase + "simsync")
			if imp.Name == nil {
				imp.Name = ast.NewIdent("sync")
			}
		case "sync/atomic":
			imp.Path.Value = strconv.Quote(simBase + "simatomic")
			if imp.Name == nil {
				imp.Name = ast.NewIdent("atomic")
			}
		case "math/rand", "crypto/rand":
			imp.Path.Value = strconv.Quote(simBase + "simrand")
			if imp.Name == nil {
				imp.Name = ast.NewIdent("rand")
			}
		case "os":
			rw.osName = local
		case "time":
			rw.timeName = local
		case "net":
			rw.netName = local
		}
	}

	// rewrite statement lists everywhere
	ast.Inspect(f, func(n ast.Node) bool {
		switch x := n.(type) {
		case *ast.BlockStmt:
			x.List = rw.stmts(x.List)
		case *ast.CaseClause:
			x.Body = rw.stmts(x.Body)
		case *ast.CommClause:
			x.Body = rw.stmts(x.Body)
			if x.Comm != nil { // not the default clause
				x.Body = append([]ast.Stmt{rw.yieldStmt("select"), rw.callStmt("ChanAcquire")}, x.Body...)
			}
		}
		return true
	})

	// function-entry scheduling points (level-1 yields): a no-op unless the run enables them (cfg fnyield=1).  They
	// open the windows between two plain memory accesses of different goroutines - lock-free shared state such as a
	// slice or cursor handed out of a critical section - that no lock, channel, atomic or system call marks.
	for _, d := range f.Decls {
		fd, ok := d.(*ast.FuncDecl)
		if !ok || fd.Body == nil || fd.Name.Name == "init" || fd.Name.Name == "String" || fd.Name.Name == "Error" {
			continue
		}
		fd.Body.List = append([]ast.Stmt{rw.callStmt("FnYield")}, fd.Body.List...)
	}

	// expression-level call rewrites
	ast.Inspect(f, func(n ast.Node) bool {
		call, ok := n.(*ast.CallExpr)
		if !ok {
			return true
		}
		sel, ok := call.Fun.(*ast.SelectorExpr)
		if !ok {
			return true
		}
		id, ok := sel.X.(*ast.Ident)
		if !ok || id.Obj != nil { // id.Obj != nil: a local object shadows the package name
			return true
		}
		if rw.timeName != "" && id.Name == rw.timeName && sel.Sel.Name == "Sleep" {
			sel.X = ast.NewIdent("simrt")
			rw.usedRT = true
		}
		// the one place where the server dials out (tracker registration over UDP): the simulated network delivers,
		// drops nothing and records every datagram for the scenario
		if rw.netName != "" && id.Name == rw.netName && sel.Sel.Name == "Dial" && rw.pkg == "hotline" {
			sel.X = ast.NewIdent("simnet")
			sel.Sel = ast.NewIdent("DialOut")
			rw.usedNet = true
		}
		if rw.osName != "" && id.Name == rw.osName && (rw.pkg == "internal/mobius" && fsFuncs[sel.Sel.Name] || rw.pkg == "hotline" && fsFuncsHotline[sel.Sel.Name]) {
			sel.X = ast.NewIdent("simfs")
			rw.usedFS = true
		}
		return true
	})

	if rw.usedRT {
		addImport(f, "simrt", simBase+"simrt")
	}
	if rw.usedFS {
		addImport(f, "simfs", simBase+"simfs")
	}
	if rw.usedNet {
		addImport(f, "simnet", simBase+"simnet")
	}

	var buf bytes.Buffer
	if err := printer.Fprint(&buf, fset, f); err != nil {
		return err
	}
	out := buf.Bytes()
	// an import that is no longer used (os, time) would break the build: keep them alive
	var keep []string
	if rw.osName != "" && rw.osName != "_" && rw.osName != "." {
		keep = append(keep, "var _ = "+rw.osName+".Getpid")
	}
	if rw.timeName != "" && rw.timeName != "_" && rw.timeName != "." {
		keep = append(keep, "var _ = "+rw.timeName+".Now")
	}
	if len(keep) > 0 {
		out = append(out, []byte("\n"+strings.Join(keep, "\n")+"\n")...)
	}
	return os.WriteFile(path, out, 0644)
}

func addImport(f *ast.File, name, path string) {
	spec := &ast.ImportSpec{Name: ast.NewIdent(name), Path: &ast.BasicLit{Kind: token.STRING, Value: strconv.Quote(path)}}
	decl := &ast.GenDecl{Tok: token.IMPORT, Specs: []ast.Spec{spec}}
	f.Decls = append([]ast.Decl{decl}, f.Decls...)
	f.Imports = append(f.Imports, spec)
}

func (rw *rewriter) yieldStmt(kind string) ast.Stmt {
	rw.usedRT = true
	return &ast.ExprStmt{X: &ast.CallExpr{
		Fun:  &ast.SelectorExpr{X: ast.NewIdent("simrt"), Sel: ast.NewIdent("Yield")},
		Args: []ast.Expr{&ast.BasicLit{Kind: token.STRING, Value: strconv.Quote(kind)}},
	}}
}

func (rw *rewriter) callStmt(fn string) ast.Stmt {
	rw.usedRT = true
	return &ast.ExprStmt{X: &ast.CallExpr{Fun: &ast.SelectorExpr{X: ast.NewIdent("simrt"), Sel: ast.NewIdent(fn)}}}
}

// hasChanOp reports whether a simple statement performs a channel send or receive
// outside of nested function literals.
func hasChanOp(s ast.Stmt) bool {
	found := false
	ast.Inspect(s, func(n ast.Node) bool {
		switch x := n.(type) {
		case *ast.FuncLit:
			return false
		case *ast.SendStmt:
			found = true
		case *ast.UnaryExpr:
			if x.Op == token.ARROW {
				found = true
			}
		}
		return !found
	})
	return found
}

func (rw *rewriter) pos(n ast.Node) string {
	p := rw.fset.Position(n.Pos())
	return fmt.Sprintf("%s:%d", rw.relname, p.Line)
}

func (rw *rewriter) stmts(list []ast.Stmt) []ast.Stmt {
	var out []ast.Stmt
	for _, s := range list {
		for _, a := range collectMapAccesses(s) {
			rw.usedRT = true
			w := "false"
			if a.write {
				w = "true"
			}
			p := rw.fset.Position(a.pos)
			out = append(out, &ast.ExprStmt{X: &ast.CallExpr{
				Fun:  &ast.SelectorExpr{X: ast.NewIdent("simrt"), Sel: ast.NewIdent("MapAccess")},
				Args: []ast.Expr{a.expr, ast.NewIdent(w), &ast.BasicLit{Kind: token.STRING, Value: strconv.Quote(fmt.Sprintf("%s:%d", rw.relname, p.Line))}},
			}})
		}
		switch x := s.(type) {
		case *ast.GoStmt:
			// defer simrt.GoStart()() as first statement of the goroutine body
			startDefer := &ast.DeferStmt{Call: &ast.CallExpr{Fun: &ast.CallExpr{
				Fun: &ast.SelectorExpr{X: ast.NewIdent("simrt"), Sel: ast.NewIdent("GoStart")},
			}}}
			rw.usedRT = true
			if lit, ok := x.Call.Fun.(*ast.FuncLit); ok {
				lit.Body.List = append([]ast.Stmt{startDefer}, lit.Body.List...)
			} else {
				// go f(x)  =>  go func(){ defer simrt.GoStart()(); f(x) }()
				inner := &ast.ExprStmt{X: x.Call}
				x.Call = &ast.CallExpr{Fun: &ast.FuncLit{
					Type: &ast.FuncType{Params: &ast.FieldList{}},
					Body: &ast.BlockStmt{List: []ast.Stmt{startDefer, inner}},
				}}
			}
			out = append(out, rw.callStmt("PreGo"), x, rw.callStmt("PostGo"))
		case *ast.ExprStmt, *ast.AssignStmt, *ast.SendStmt, *ast.DeclStmt, *ast.IncDecStmt:
			if hasChanOp(s) {
				// happens-before edges for the map monitor: everything before a send is visible after a receive
				out = append(out, rw.callStmt("ChanRelease"), s, rw.yieldStmt("chan"), rw.callStmt("ChanAcquire"))
			} else {
				out = append(out, s)
			}
		default:
			out = append(out, s)
		}
	}
	return out
}
