package harness

import (
	"fmt"
	"math/rand"
	"os"
	"path/filepath"
	"sort"
	"strings"

	"github.com/jhalter/mobius/hotline"
	"github.com/jhalter/mobius/internal/mobius"
	rp "github.com/jhalter/mobius/verifsim/refproto"
	"github.com/jhalter/mobius/verifsim/simfs"
	"golang.org/x/crypto/bcrypt"
)

// C20: a crash never leaves persistent state torn (DESIGN §6 C20).
//
// One execution of a generated update history yields the crash image at EVERY journalled
// system-call boundary (simfs).  Each image is reloaded with the real constructors and
// compared with the model states that are legal at that boundary.

type acctModel struct {
	Name   string
	Access rp.Access
	Pw     string
}

type c20Update struct {
	store    string // "accounts", "news", "bans"
	inv, ack int    // image marks
	acked    bool
}

func cloneAccts(m map[string]acctModel) map[string]acctModel {
	o := map[string]acctModel{}
	for k, v := range m {
		o[k] = v
	}
	return o
}

type newsModel map[string]map[uint32][2]string // category -> article id -> {title, body}

func cloneNews(m newsModel) newsModel {
	o := newsModel{}
	for k, v := range m {
		o[k] = map[uint32][2]string{}
		for a, b := range v {
			o[k][a] = b
		}
	}
	return o
}

func genC20(rng *rand.Rand, c *Case) {
	c.Cfg["policy"] = rng.Intn(3)
	c.Cfg["board"] = []int{0, 100, 3000, 9000}[rng.Intn(4)]
	c.Cfg["legacy"] = rng.Intn(3) / 2
	n := 4 + rng.Intn(12)
	accts := []string{}
	cats := []string{}
	arts := map[string]int{}
	for i := 0; i < n; i++ {
		switch rng.Intn(10) {
		case 0, 1:
			c.Ops = append(c.Ops, Op{C: 0, K: "post", N: []int{rng.Intn(6000)}})
		case 2:
			c.Ops = append(c.Ops, Op{C: 1, K: "post", N: []int{rng.Intn(300)}})
		case 3:
			l := fmt.Sprintf("acct%d", i)
			accts = append(accts, l)
			c.Ops = append(c.Ops, Op{C: 1, K: "newuser", S: []string{l, "Name " + l, fmt.Sprintf("pw%d", rng.Intn(3))}, N: []int{rng.Intn(1 << 20)}})
		case 4:
			if len(accts) > 0 {
				l := accts[rng.Intn(len(accts))]
				c.Ops = append(c.Ops, Op{C: 1, K: "setuser", S: []string{l, fmt.Sprintf("Renamed %d", i), fmt.Sprintf("np%d", i)}, N: []int{rng.Intn(1 << 20), rng.Intn(3)}})
			}
		case 5:
			if len(accts) > 0 {
				j := rng.Intn(len(accts))
				l := accts[j]
				nl := fmt.Sprintf("moved%d", i)
				accts[j] = nl
				c.Ops = append(c.Ops, Op{C: 1, K: "rename", S: []string{l, nl, "N " + nl}, N: []int{rng.Intn(1 << 20)}})
			}
		case 6:
			if len(accts) > 0 {
				j := rng.Intn(len(accts))
				c.Ops = append(c.Ops, Op{C: 1, K: "deluser", S: []string{accts[j]}, N: []int{rng.Intn(2)}})
				accts = append(accts[:j], accts[j+1:]...)
			}
		case 7:
			c.Ops = append(c.Ops, Op{C: 1, K: "ban", N: []int{1 + rng.Intn(2)}})
		case 8:
			name := fmt.Sprintf("cat%d", i)
			cats = append(cats, name)
			c.Ops = append(c.Ops, Op{C: 0, K: "newcat", S: []string{name}})
		case 9:
			if len(cats) > 0 {
				cat := cats[rng.Intn(len(cats))]
				switch rng.Intn(4) {
				case 0, 1:
					arts[cat]++
					c.Ops = append(c.Ops, Op{C: 0, K: "postart", S: []string{cat, fmt.Sprintf("title %d", i)}, N: []int{rng.Intn(3000)}})
				case 2:
					if arts[cat] > 0 {
						c.Ops = append(c.Ops, Op{C: 0, K: "delart", S: []string{cat}, N: []int{1 + rng.Intn(arts[cat])}})
					}
				case 3:
					c.Ops = append(c.Ops, Op{C: 0, K: "delcat", S: []string{cat}})
				}
			}
		}
	}
}

func runC20(w *World) {
	cfg := w.Case.Cfg
	rng := rand.New(rand.NewSource(w.Case.Seed ^ 0xc20))
	admin := rp.AllAccess()
	w.AddAccount("guest", "Guest", "", rp.AccessOf(rp.PReadChat, rp.PAnyName))
	w.AddAccount("admin", "Admin", "adminpw", admin)
	initialBoard := randText(rng, cfg["board"])
	w.WriteFile("MessageBoard.txt", initialBoard)
	accts0 := map[string]acctModel{
		"guest": {Name: "Guest", Access: rp.AccessOf(rp.PReadChat, rp.PAnyName), Pw: ""},
		"admin": {Name: "Admin", Access: admin, Pw: "adminpw"},
	}
	if cfg["legacy"] == 1 {
		la := rp.AccessOf(rp.PDownloadFile, rp.PReadChat, rp.PSendPrivMsg, rp.PNewsReadArt)
		w.WriteFile("Users/legacy.yaml", rp.AccountYAMLLegacy("legacy", "Legacy User", HashPw("\x8f\x88"), la))
		accts0["legacy"] = acctModel{Name: "Legacy User", Access: la, Pw: "pw"}
	}

	// the recorder watches the config directory from before the server loads it (migration is journalled too)
	rec := &simfs.Recorder{Root: w.ConfigDir, Enabled: true}
	w.Recorder = rec
	simfs.SetRecorder(rec)
	si := w.StartServer()
	if si.StartErr != nil {
		w.Violate("c20-initial-start", "server does not start from the generated config: %v", si.StartErr)
		return
	}

	// sequential model states per store (one client per store => states form a chain)
	acctStates := []map[string]acctModel{accts0}
	newsStates := []newsModel{{}}
	banStates := [][]string{{}} // sorted "ip perm|temp"
	var acctUpd, newsUpd, banUpd []c20Update
	type postRec struct {
		text     string
		inv, ack int
	}
	var posts []postRec
	nextArt := map[string]uint32{}
	victims := 0

	mkClient := func(i int) *Client { return w.NewClient(fmt.Sprintf("admin%d", i), fmt.Sprintf("10.1.0.%d", i+1)) }
	for ci := 0; ci < 2; ci++ {
		idx := ci
		c := mkClient(ci)
		w.Sim.Go(fmt.Sprintf("c%d", ci), true, func() {
			if !c.Login("admin", "adminpw", "", 0) || !c.Agree(c.Name, 0, 0, "") {
				w.Violate("c20-login", "admin client %d could not log in", idx)
				return
			}
			orng := rand.New(rand.NewSource(w.Case.Seed ^ int64(idx+1)*104729))
			for _, op := range w.Case.Ops {
				if op.C != idx {
					continue
				}
				inv := rec.Mark()
				var rep rp.Tran
				var ok bool
				switch op.K {
				case "post":
					body := fmt.Sprintf("p%d-%d:%s", idx, len(posts), randText(orng, op.N[0]))
					rep, ok = c.Do(rp.TOldPostNews, rp.FS(rp.FData, body))
					if ok && rep.Err == 0 {
						posts = append(posts, postRec{text: boardPost(c.Name, body), inv: inv, ack: rec.Mark()})
					}
				case "newuser":
					var a rp.Access
					a = accessFromInt(op.N[0])
					rep, ok = c.NewUser(op.S[0], op.S[1], op.S[2], a)
					st := cloneAccts(acctStates[len(acctStates)-1])
					if _, exists := st[op.S[0]]; !exists && ok && rep.Err == 0 {
						st[op.S[0]] = acctModel{Name: op.S[1], Access: a, Pw: op.S[2]}
						acctStates = append(acctStates, st)
						acctUpd = append(acctUpd, c20Update{inv: inv, ack: rec.Mark(), acked: true})
					}
				case "setuser":
					a := accessFromInt(op.N[0])
					rep, ok = c.SetUser(op.S[0], op.S[1], a, op.N[1], op.S[2])
					st := cloneAccts(acctStates[len(acctStates)-1])
					if cur, exists := st[op.S[0]]; exists && ok && rep.Err == 0 {
						cur.Name, cur.Access = op.S[1], a
						switch op.N[1] {
						case PwNew:
							cur.Pw = op.S[2]
						case PwAbsent:
							cur.Pw = ""
						}
						st[op.S[0]] = cur
						acctStates = append(acctStates, st)
						acctUpd = append(acctUpd, c20Update{inv: inv, ack: rec.Mark(), acked: true})
					}
				case "rename":
					st := cloneAccts(acctStates[len(acctStates)-1])
					cur, exists := st[op.S[0]]
					if !exists {
						continue
					}
					a := accessFromInt(op.N[0])
					rep, ok = c.UpdateUsers([]UserEdit{{Kind: "rename", Login: op.S[0], NewLogin: op.S[1], Name: op.S[2], Access: a, PwMode: PwUnchanged}})
					if ok && rep.Err == 0 {
						delete(st, op.S[0])
						cur.Name, cur.Access = op.S[2], a
						st[op.S[1]] = cur
						acctStates = append(acctStates, st)
						acctUpd = append(acctUpd, c20Update{inv: inv, ack: rec.Mark(), acked: true})
					}
				case "deluser":
					st := cloneAccts(acctStates[len(acctStates)-1])
					if _, exists := st[op.S[0]]; !exists {
						continue
					}
					if op.N[0] == 0 {
						rep, ok = c.DeleteUser(op.S[0])
					} else {
						rep, ok = c.UpdateUsers([]UserEdit{{Kind: "delete", Login: op.S[0]}})
					}
					if ok && rep.Err == 0 {
						delete(st, op.S[0])
						acctStates = append(acctStates, st)
						acctUpd = append(acctUpd, c20Update{inv: inv, ack: rec.Mark(), acked: true})
					}
				case "ban":
					// a victim connects from its own address, the admin bans it
					victims++
					ip := fmt.Sprintf("10.9.%d.%d", idx, victims)
					v := w.NewClient(fmt.Sprintf("victim%d_%d", idx, victims), ip)
					if !v.Login("guest", "", "", 0) || !v.Agree(v.Name, 0, 0, "") {
						continue
					}
					uid := v.MyUserID()
					inv = rec.Mark()
					rep, ok = c.DisconnectUser(uid, op.N[0])
					if ok && rep.Err == 0 {
						kind := "temp"
						if op.N[0] == 2 {
							kind = "perm"
						}
						st := append(append([]string{}, banStates[len(banStates)-1]...), ip+" "+kind)
						sort.Strings(st)
						banStates = append(banStates, st)
						banUpd = append(banUpd, c20Update{inv: inv, ack: rec.Mark(), acked: true})
					}
				case "newcat":
					rep, ok = c.NewNewsCat(nil, op.S[0])
					if ok && rep.Err == 0 {
						st := cloneNews(newsStates[len(newsStates)-1])
						st[op.S[0]] = map[uint32][2]string{}
						nextArt[op.S[0]] = 0
						newsStates = append(newsStates, st)
						newsUpd = append(newsUpd, c20Update{inv: inv, ack: rec.Mark(), acked: true})
					}
				case "postart":
					st := cloneNews(newsStates[len(newsStates)-1])
					cat, exists := st[op.S[0]]
					if !exists {
						continue
					}
					body := randText(orng, op.N[0])
					rep, ok = c.PostArticle([]string{op.S[0]}, 0, op.S[1], body)
					if ok && rep.Err == 0 {
						var maxID uint32
						for id := range cat {
							maxID = max(maxID, id)
						}
						cat[maxID+1] = [2]string{op.S[1], body}
						newsStates = append(newsStates, st)
						newsUpd = append(newsUpd, c20Update{inv: inv, ack: rec.Mark(), acked: true})
					}
				case "delart":
					st := cloneNews(newsStates[len(newsStates)-1])
					cat, exists := st[op.S[0]]
					if !exists {
						continue
					}
					if _, has := cat[uint32(op.N[0])]; !has {
						continue
					}
					rep, ok = c.DelArticle([]string{op.S[0]}, uint32(op.N[0]))
					if ok && rep.Err == 0 {
						delete(cat, uint32(op.N[0]))
						newsStates = append(newsStates, st)
						newsUpd = append(newsUpd, c20Update{inv: inv, ack: rec.Mark(), acked: true})
					}
				case "delcat":
					st := cloneNews(newsStates[len(newsStates)-1])
					if _, exists := st[op.S[0]]; !exists {
						continue
					}
					rep, ok = c.DelNewsItem([]string{op.S[0]})
					if ok && rep.Err == 0 {
						delete(st, op.S[0])
						newsStates = append(newsStates, st)
						newsUpd = append(newsUpd, c20Update{inv: inv, ack: rec.Mark(), acked: true})
					}
				}
				if !ok {
					w.Violate("c20-unanswered-"+op.K, "client %d: %s request not answered", idx, op.K)
				}
			}
		})
	}
	w.Sim.Run()
	rec.Enabled = false
	if len(w.Violations()) > 0 {
		return
	}

	// ---- every crash image ----
	imgDir := filepath.Join(w.Dir, "crashimg")
	window := func(upd []c20Update, i int) (lo, hi int) {
		// state index j is legal iff lo <= j <= hi (state 0 = initial, state k = after update k)
		for k, u := range upd {
			if u.ack <= i {
				lo = k + 1
			}
			if u.inv < i {
				hi = k + 1
			}
		}
		return
	}
	pwOK := map[string]bool{}
	checkPw := func(hash, pw string) bool {
		key := hash + "\x00" + pw
		if v, ok := pwOK[key]; ok {
			return v
		}
		v := bcrypt.CompareHashAndPassword([]byte(hash), rp.Obfuscate([]byte(pw))) == nil
		pwOK[key] = v
		return v
	}
	seen := map[string]bool{}
	bad := map[string]bool{} // store -> previous image was already bad (report the transition only)
	report := func(store string, isBad bool, sig, format string, args ...any) {
		if isBad && !bad[store] {
			w.Violate(sig, format, args...)
		}
		bad[store] = isBad
	}
	for i, img := range rec.Images {
		if seen[img.Key] {
			continue
		}
		seen[img.Key] = true
		w.Probe("fault_crash_images_reloaded")
		kind := strings.SplitN(img.Desc, " ", 2)[0]
		file := ""
		if p := strings.SplitN(img.Desc, " ", 2); len(p) == 2 {
			file = fileClass(p[1])
		}
		at := kind + "-" + file
		_ = os.RemoveAll(imgDir)
		for rel, content := range img.Files {
			p := filepath.Join(imgDir, rel)
			if content == "<dir>" {
				must(os.MkdirAll(p, 0755))
				continue
			}
			must(os.MkdirAll(filepath.Dir(p), 0755))
			must(os.WriteFile(p, []byte(content), 0644))
		}
		// board
		fn, err := mobius.NewFlatNews(filepath.Join(imgDir, "MessageBoard.txt"))
		if err != nil {
			report("board", true, "c20-board-load-fails-after-"+at, "image %d (%s): NewFlatNews: %v", i, img.Desc, err)
		} else {
			buf := make([]byte, 4<<20)
			k, _ := fn.Read(buf)
			text := maskDates(string(buf[:k]))
			rest := text
			have := map[int]bool{}
			for progress := true; progress; {
				progress = false
				for pi, p := range posts {
					if !have[pi] && strings.HasPrefix(rest, p.text) {
						rest = rest[len(p.text):]
						have[pi] = true
						progress = true
					}
				}
			}
			if rest != initialBoard {
				report("board", true, "c20-board-torn-after-"+at, "image %d (%s): message board (%d bytes) is not a sequence of whole posts followed by the initial text (unparsed tail %d bytes, want %d)", i, img.Desc, len(text), len(rest), len(initialBoard))
			} else {
				lost := -1
				for pi, p := range posts {
					if p.ack <= i && !have[pi] {
						lost = pi
					}
					if p.inv >= i && have[pi] {
						w.Violate("c20-board-from-the-future", "image %d: contains post %d that was sent later (harness error?)", i, pi)
					}
				}
				report("board", lost >= 0, "c20-board-lost-ack-after-"+at, "image %d (%s): acknowledged post %d is missing from the board", i, img.Desc, lost)
			}
		}
		// bans
		bf, err := mobius.NewBanFile(filepath.Join(imgDir, "Banlist.yaml"))
		if err != nil {
			report("bans", true, "c20-bans-load-fails-after-"+at, "image %d (%s): NewBanFile: %v", i, img.Desc, err)
		} else {
			lo, hi := window(banUpd, i)
			okAny := false
			for j := lo; j <= hi && !okAny; j++ {
				okAny = banStateMatches(bf, banStates[j], banStates[len(banStates)-1])
			}
			report("bans", !okAny, "c20-bans-wrong-after-"+at, "image %d (%s): loaded ban list matches none of the legal states %d..%d", i, img.Desc, lo, hi)
		}
		// news
		tn, err := mobius.NewThreadedNewsYAML(filepath.Join(imgDir, "ThreadedNews.yaml"))
		if err != nil {
			report("news", true, "c20-news-load-fails-after-"+at, "image %d (%s): NewThreadedNewsYAML: %v", i, img.Desc, err)
		} else {
			lo, hi := window(newsUpd, i)
			okAny := false
			for j := lo; j <= hi && !okAny; j++ {
				okAny = newsStateMatches(tn, newsStates[j])
			}
			report("news", !okAny, "c20-news-wrong-after-"+at, "image %d (%s): loaded threaded news matches none of the legal states %d..%d", i, img.Desc, lo, hi)
		}
		// accounts
		am, err := mobius.NewYAMLAccountManager(filepath.Join(imgDir, "Users/"))
		if err != nil {
			report("accounts", true, "c20-accounts-load-fails-after-"+at, "image %d (%s): NewYAMLAccountManager: %v", i, img.Desc, err)
		} else {
			lo, hi := window(acctUpd, i)
			okAny := false
			why := ""
			for j := lo; j <= hi && !okAny; j++ {
				if why = acctStateDiff(am.List(), acctStates[j], checkPw); why == "" {
					why = acctLookupDiff(am.Get, acctStates[j])
				}
				okAny = why == ""
			}
			report("accounts", !okAny, "c20-accounts-wrong-after-"+at, "image %d (%s): loaded accounts match none of the legal states %d..%d (%s)", i, img.Desc, lo, hi, why)
			// recovery continues: the restarted server must be able to go on updating what the crash left behind
			// (every account edited to a shorter record, one renamed), and a second restart must load exactly that
			if okAny {
				want := map[string]acctModel{}
				accs := am.List()
				sort.Slice(accs, func(a, b int) bool { return accs[a].Login < accs[b].Login })
				failed := ""
				for k, a := range accs {
					m := acctModel{Name: "s", Pw: ""}
					for l, st := range acctStates {
						_ = l
						if sm, ok := st[a.Login]; ok && checkPw(a.Password, sm.Pw) {
							m.Pw = sm.Pw
						}
					}
					a.Name = "s"
					a.Access = hotline.AccessBitmap{}
					nl := a.Login
					if k == 0 {
						nl = "rc-" + a.Login
					}
					if err := am.Update(a, nl); err != nil {
						failed = fmt.Sprintf("Update(%q -> %q): %v", a.Login, nl, err)
						break
					}
					want[nl] = m
				}
				if failed == "" {
					am2, err := mobius.NewYAMLAccountManager(filepath.Join(imgDir, "Users/"))
					if err != nil {
						failed = fmt.Sprintf("second restart: NewYAMLAccountManager: %v", err)
					} else if d := acctStateDiff(am2.List(), want, checkPw); d != "" {
						failed = "second restart: " + d
					} else if d := acctLookupDiff(am2.Get, want); d != "" {
						failed = "second restart: " + d
					}
				}
				w.Probe("fault_recovery_continued")
				report("accounts-continue", failed != "", "c20-accounts-update-after-recovery-"+at, "image %d (%s): after restarting from this image and editing every account: %s", i, img.Desc, failed)
			}
		}
		// the same for the other stores: one more update after recovery, then a second restart
		if bf2, err := mobius.NewBanFile(filepath.Join(imgDir, "Banlist.yaml")); err == nil {
			failed := ""
			if err := bf2.Add("9.9.9.9", nil); err != nil {
				failed = fmt.Sprintf("Add: %v", err)
			} else if bf3, err := mobius.NewBanFile(filepath.Join(imgDir, "Banlist.yaml")); err != nil {
				failed = fmt.Sprintf("second restart: NewBanFile: %v", err)
			} else if banned, until := bf3.IsBanned("9.9.9.9"); !banned || until != nil {
				failed = "second restart: the ban added after recovery is missing"
			}
			report("bans-continue", failed != "", "c20-bans-update-after-recovery-"+at, "image %d (%s): after restarting from this image and banning one more address: %s", i, img.Desc, failed)
		}
		if fn2, err := mobius.NewFlatNews(filepath.Join(imgDir, "MessageBoard.txt")); err == nil {
			buf := make([]byte, 4<<20)
			k, _ := fn2.Read(buf)
			before := string(buf[:k])
			failed := ""
			if _, err := fn2.Write([]byte("p\r")); err != nil {
				failed = fmt.Sprintf("Write: %v", err)
			} else if fn3, err := mobius.NewFlatNews(filepath.Join(imgDir, "MessageBoard.txt")); err != nil {
				failed = fmt.Sprintf("second restart: NewFlatNews: %v", err)
			} else {
				k, _ := fn3.Read(buf)
				if string(buf[:k]) != "p\r"+before {
					failed = fmt.Sprintf("second restart: board has %d bytes, want the new post followed by the %d bytes recovered", k, len(before))
				}
			}
			report("board-continue", failed != "", "c20-board-update-after-recovery-"+at, "image %d (%s): after restarting from this image and posting once more: %s", i, img.Desc, failed)
		}
		if tn2, err := mobius.NewThreadedNewsYAML(filepath.Join(imgDir, "ThreadedNews.yaml")); err == nil {
			failed := ""
			if err := tn2.CreateGrouping(nil, "rc", hotline.NewsCategory); err != nil {
				failed = fmt.Sprintf("CreateGrouping: %v", err)
			} else if tn3, err := mobius.NewThreadedNewsYAML(filepath.Join(imgDir, "ThreadedNews.yaml")); err != nil {
				failed = fmt.Sprintf("second restart: NewThreadedNewsYAML: %v", err)
			} else if _, ok := tn3.ThreadedNews.Categories["rc"]; !ok || len(tn3.ThreadedNews.Categories) != len(tn2.ThreadedNews.Categories) {
				failed = "second restart: the category created after recovery is missing or others vanished"
			}
			report("news-continue", failed != "", "c20-news-update-after-recovery-"+at, "image %d (%s): after restarting from this image and creating a category: %s", i, img.Desc, failed)
		}
	}
	_ = os.RemoveAll(imgDir)
}

func fileClass(name string) string {
	switch {
	case strings.HasPrefix(name, "MessageBoard.txt.tmp"):
		return "boardtmp"
	case strings.HasPrefix(name, "MessageBoard"):
		return "board"
	case strings.HasPrefix(name, "Banlist"):
		return "banlist"
	case strings.HasPrefix(name, "ThreadedNews.yaml.tmp"):
		return "newstmp"
	case strings.HasPrefix(name, "ThreadedNews"):
		return "news"
	case strings.HasSuffix(name, ".yaml"):
		return "account"
	case strings.HasSuffix(name, ".tmp"):
		return "accounttmp"
	}
	return "other"
}

func accessFromInt(v int) rp.Access {
	// spread the bits of v over the defined privileges
	var a rp.Access
	for i, b := range rp.DefinedBits {
		if v>>(uint(i)%20)&1 == 1 && (i < 20 || v&1 == 0) {
			a.Set(b)
		}
	}
	return a
}

func banStateMatches(bf *mobius.BanFile, want, final []string) bool {
	wantSet := map[string]string{}
	for _, e := range want {
		p := strings.SplitN(e, " ", 2)
		wantSet[p[0]] = p[1]
	}
	// every wanted ban must be present with the right kind
	for ip, kind := range wantSet {
		banned, until := bf.IsBanned(ip)
		if !banned || (kind == "perm") != (until == nil) {
			return false
		}
	}
	// and no ban of the run that is not wanted in this state
	for _, e := range final {
		ip := strings.SplitN(e, " ", 2)[0]
		if _, w := wantSet[ip]; !w {
			if banned, _ := bf.IsBanned(ip); banned {
				return false
			}
		}
	}
	return true
}

func newsStateMatches(tn *mobius.ThreadedNewsYAML, want newsModel) bool {
	cats := tn.GetCategories(nil)
	if len(cats) != len(want) {
		return false
	}
	for _, c := range cats {
		wc, ok := want[c.Name]
		if !ok || len(c.Articles) != len(wc) || c.Type != hotline.NewsCategory {
			return false
		}
		for id, art := range c.Articles {
			wa, ok := wc[id]
			if !ok || art == nil || art.Title != wa[0] || art.Data != wa[1] {
				return false
			}
		}
	}
	return true
}

func acctStateDiff(got []hotline.Account, want map[string]acctModel, checkPw func(hash, pw string) bool) string {
	if len(got) != len(want) {
		var ls []string
		for _, a := range got {
			ls = append(ls, fmt.Sprintf("%q", a.Login))
		}
		sort.Strings(ls)
		return fmt.Sprintf("%d accounts loaded %v, want %d", len(got), ls, len(want))
	}
	for _, a := range got {
		m, ok := want[a.Login]
		if !ok {
			return fmt.Sprintf("unexpected login %q", a.Login)
		}
		if a.Name != m.Name {
			return fmt.Sprintf("%s: name %q want %q", a.Login, a.Name, m.Name)
		}
		if rp.Access(a.Access) != m.Access {
			return fmt.Sprintf("%s: access %x want %x", a.Login, a.Access, m.Access)
		}
		if !checkPw(a.Password, m.Pw) {
			return fmt.Sprintf("%s: stored hash does not verify the password", a.Login)
		}
	}
	return ""
}

// acctLookupDiff: the value of the account store is also what a login resolves to - every account of the state must be
// found under its own login (this is the lookup the login path and every account request use).
func acctLookupDiff(get func(string) *hotline.Account, want map[string]acctModel) string {
	var ls []string
	for l := range want {
		ls = append(ls, l)
	}
	sort.Strings(ls)
	for _, l := range ls {
		if a := get(l); a == nil {
			return fmt.Sprintf("account %q is listed but cannot be looked up by its login", l)
		} else if a.Login != l {
			return fmt.Sprintf("looking up %q yields the account %q", l, a.Login)
		}
	}
	return ""
}

func init() {
	Register(&Scenario{ID: "C20", Gen: genC20, Run: runC20})
}
