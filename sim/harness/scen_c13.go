package harness

import (
	"fmt"
	"math/rand"
	"sort"
	"strings"
	"time"

	"github.com/jhalter/mobius/hotline"
	rp "github.com/jhalter/mobius/verifsim/refproto"
	"github.com/jhalter/mobius/verifsim/simrt"
)

// C13: presence converges and user IDs address one live user (DESIGN §6 C13).

const (
	flagAway     = 1 << 0
	flagAdmin    = 1 << 1
	flagRefusePM = 1 << 2
	flagRefuseCh = 1 << 3
)

func genC13(rng *rand.Rand, c *Case) {
	c.Cfg["policy"] = rng.Intn(3)
	// a quarter of the cases make every function entry of the server a scheduling point (races on lock-free shared state)
	c.Cfg["fnyield"] = rng.Intn(4) / 3
	c.Cfg["seg_s2c"] = rng.Intn(2)
	n := 2 + rng.Intn(5)
	c.Cfg["clients"] = n
	// serial mode (known-finding mask "serial-presence", DESIGN 5.3): presence-changing operations are
	// issued one at a time with the system idle in between and sender goroutines run in creation order.
	// a third mode masks only the two mechanisms of the known finding, not concurrency as such: sender goroutines run
	// in creation order, and the two handlers that broadcast about ANOTHER user without serialising with that user's
	// own handler (set-user by an administrator, idle marking) are not exercised; everything else - renames, option
	// changes, kicks, quits - stays concurrent, and there the rosters must converge without exception
	switch rng.Intn(4) {
	case 0, 1:
		c.Cfg["serial"] = 1
		c.Cfg["fifo_senders"] = 1
	case 2:
		c.Cfg["fifo_senders"] = 1
		c.Cfg["nopart2"] = 1
		// a few times per run a goroutine is kept off the CPU for 300 steps while the rest goes on: check-then-act
		// windows in the presence code (snapshot the recipients ... remove the user) are only a dozen steps wide.
		// Shown to stay clear of the known finding in this mode on 6 400 runs of the unchanged tree (DESIGN 13, wave 12)
		c.Cfg["stalls"] = 6
		c.Cfg["stall_len"] = 300
		// third mechanism of the known finding: the user-list reply is assembled from unlocked reads of the other
		// connections' name/icon/flags and is not ordered with their change notices; it needs a preemption inside a
		// handler, which only function-entry scheduling points provide - off in this mode
		c.Cfg["fnyield"] = 0
	}
	if rng.Intn(4) == 0 {
		// history with more than 65,535 earlier connections: the id counter is about to wrap
		c.Cfg["wrap"] = 65536 - rng.Intn(4)
		c.Cfg["wrap_after"] = 1 + rng.Intn(n) // this many clients are long-lived and logged in before the counter wraps
	}
	// outside serial mode: somebody logs in with an account at the instant the administrator deletes it
	if c.Cfg["serial"] == 0 {
		c.Cfg["ghostrace"] = rng.Intn(2)
	}
	for i := 0; i < n; i++ {
		c.Cfg[fmt.Sprintf("flav%d", i)] = rng.Intn(2)
		c.Cfg[fmt.Sprintf("opts%d", i)] = rng.Intn(8)
		if rng.Intn(3) == 0 {
			c.Cfg[fmt.Sprintf("late%d", i)] = rng.Intn(200)
		}
	}
	total := 6 + rng.Intn(30)
	for j := 0; j < total; j++ {
		ci := rng.Intn(n)
		switch k := rng.Intn(16); {
		case k < 4:
			// length 0: the user goes nameless (legal with the any-name privilege) and must still be told who joins and leaves
			nl := 1 + rng.Intn(20)
			if rng.Intn(4) == 0 {
				nl = 0
			}
			c.Ops = append(c.Ops, Op{C: ci, K: "rename", N: []int{nl, rng.Intn(1000)}})
		case k < 6:
			c.Ops = append(c.Ops, Op{C: ci, K: "opts", N: []int{rng.Intn(8)}})
		case k < 9:
			c.Ops = append(c.Ops, Op{C: ci, K: "pm", N: []int{rng.Intn(n), rng.Intn(200)}})
		case k < 10:
			c.Ops = append(c.Ops, Op{C: ci, K: "info", N: []int{rng.Intn(n)}})
		case k < 12:
			c.Ops = append(c.Ops, Op{C: n, K: "adminflag", N: []int{rng.Intn(n), rng.Intn(2)}})
		case k < 13:
			if rng.Intn(4) != 0 {
				// becomes active again at the very instant the server's idle check marks it away
				c.Ops = append(c.Ops, Op{C: ci, K: "idlerace"})
			} else {
				c.Ops = append(c.Ops, Op{C: ci, K: "idle"})
			}
		case k < 14 && rng.Intn(3) == 0:
			// the administrator disconnects a user, who may be in the middle of something - half of the time at the
			// very moment that user changes its name or options (rendezvous, outside serial mode)
			t := rng.Intn(n)
			if rng.Intn(2) == 0 {
				c.Ops = append(c.Ops, Op{C: n, K: "meet", N: []int{j, 2}}, Op{C: t, K: "meet", N: []int{j, 2}})
				if rng.Intn(2) == 0 {
					c.Ops = append(c.Ops, Op{C: t, K: "rename", N: []int{1 + rng.Intn(20), rng.Intn(1000)}})
				} else {
					c.Ops = append(c.Ops, Op{C: t, K: "opts", N: []int{rng.Intn(8)}})
				}
			}
			c.Ops = append(c.Ops, Op{C: n, K: "kick", N: []int{t}})
		case k < 14:
			c.Ops = append(c.Ops, Op{C: ci, K: "delay", N: []int{rng.Intn(60)}})
		default:
			if rng.Intn(3) == 0 {
				c.Ops = append(c.Ops, Op{C: ci, K: []string{"quit", "reset"}[rng.Intn(2)]})
			}
		}
	}
	if c.Cfg["serial"] == 1 {
		// serial mode is where that race is judged without the known finding in the way: make sure it happens
		for k := 0; k < 2; k++ {
			c.Ops = append(c.Ops, Op{C: rng.Intn(n), K: "idlerace"})
		}
	}
}

type c13User struct {
	ID    uint16
	Name  string
	Icon  uint16
	Flags uint16
}

func foldRoster(c *Client) (map[uint16]c13User, bool) {
	// position of the (first) user-list reply in arrival order
	pos := -1
	var list rp.Tran
	for i, r := range c.AllRecv {
		if r.T.IsReply == 1 && c.Sent[r.T.ID] == rp.TGetUserNameList {
			pos, list = i, r.T
			break
		}
	}
	if pos < 0 {
		return nil, false
	}
	st := map[uint16]c13User{}
	for _, d := range list.GetAll(rp.FUsernameWithInfo) {
		u, err := rp.DecodeUser(d)
		if err != nil {
			return nil, false
		}
		st[u.ID] = c13User{u.ID, u.Name, u.Icon, u.Flags}
	}
	for _, r := range c.AllRecv[pos+1:] {
		t := r.T
		if t.IsReply == 1 {
			continue
		}
		id, _ := t.Get(rp.FUserID)
		if len(id) != 2 {
			continue
		}
		uid := uint16(id[0])<<8 | uint16(id[1])
		switch t.Type {
		case rp.TNotifyChangeUser:
			u := st[uid]
			u.ID = uid
			if d, ok := t.Get(rp.FUserName); ok {
				u.Name = string(d)
			}
			if d, ok := t.Get(rp.FUserIconID); ok {
				if v, ok := rp.Int(d); ok {
					u.Icon = uint16(v)
				}
			}
			if d, ok := t.Get(rp.FUserFlags); ok {
				if v, ok := rp.Int(d); ok {
					u.Flags = uint16(v)
				}
			}
			st[uid] = u
		case rp.TNotifyDeleteUser:
			delete(st, uid)
		}
	}
	return st, true
}

func rosterString(m map[uint16]c13User) string {
	var ks []int
	for k := range m {
		ks = append(ks, int(k))
	}
	sort.Ints(ks)
	var sb strings.Builder
	for _, k := range ks {
		u := m[uint16(k)]
		fmt.Fprintf(&sb, "[%d %q icon=%d flags=%04b]", u.ID, u.Name, u.Icon, u.Flags)
	}
	return sb.String()
}

func runC13(w *World) {
	cfg := w.Case.Cfg
	n := cfg["clients"]
	base := rp.AccessOf(rp.PAnyName, rp.PSendPrivMsg, rp.PGetClientInfo, rp.PReadChat, rp.PNoAgreement)
	for i := 0; i < n; i++ {
		w.AddAccount(fmt.Sprintf("acct%d", i), fmt.Sprintf("Acct %d", i), "", base)
	}
	w.AddAccount("root", "Root", "rootpw", rp.AllAccess())
	w.AddAccount("tempacct", "Temp", "", base)
	si := w.StartServer()
	tickerStart := time.Now() // the idle checker ticks every 10 s from here
	// history with more than 65,535 connections: once the first wrap_after clients are logged in, the
	// scheduler goroutine (no thread runs) performs cfg["wrap"] connect/disconnect pairs through the
	// public ClientManager seam - equivalent to that many past connections that came and went.
	wantWrap, wrapDone := false, cfg["wrap"] == 0
	var wrapQ simrt.WaitQ
	early := 0
	w.Sim.SetOnStep(func() {
		if wantWrap {
			wantWrap = false
			for i := 0; i < cfg["wrap"]; i++ {
				cc := &hotline.ClientConn{}
				si.S.ClientMgr.Add(cc)
				si.S.ClientMgr.Delete(cc.ID)
			}
			w.Probe("id_counter_wrapped_with_live_users")
			wrapDone = true
			simrt.Wake(&wrapQ)
		}
	})

	names := make([]string, n+1)
	icons := make([]uint16, n+1)
	opts := make([]int, n+1)
	auto := make([]string, n+1)
	adminBit := make([]bool, n+1)
	loggedIn := make([]bool, n+1)
	gone := make([]bool, n+1)
	uid := make([]uint16, n+1)
	away := make([]bool, n+1)
	hasID := make([]bool, n+1)
	ver := make([]int, n+1) // odd while a settings change of that client is in flight
	type pmRec struct {
		from, to int
		body     string
		toID     uint16
		toOpts   int
		toAuto   string
		stable   bool
	}
	var pms []pmRec
	quitter := make([]bool, n+1)
	for _, op := range w.Case.Ops {
		if (op.K == "quit" || op.K == "reset") && op.C <= n {
			quitter[op.C] = true
		}
		if op.K == "kick" {
			quitter[op.N[0]] = true
		}
	}
	serial := cfg["serial"] != 0
	turnHeld := false
	var turnQ simrt.WaitQ
	takeTurn := func() {
		if !serial {
			return
		}
		for turnHeld {
			simrt.Park(&turnQ)
		}
		turnHeld = true
	}
	giveTurn := func() {
		if !serial {
			return
		}
		Settle()
		turnHeld = false
		simrt.Wake(&turnQ)
	}
	giveTurnQuick := func() {
		if serial {
			turnHeld = false
			simrt.Wake(&turnQ)
		}
	}
	var ready, fin simrt.WaitQ
	nready, finished, woken := 0, 0, 0
	goneCount := func() int {
		k := 0
		for i := 0; i <= n; i++ {
			if gone[i] {
				k++
			}
		}
		return k
	}
	finish := func() {
		finished++
		simrt.Wake(&fin)
	}

	if cfg["ghostrace"] == 1 {
		w.Sim.Go("tmp", false, func() {
			tc := w.NewClient("tempuser", "10.1.9.9") // created here: the clients 0..n keep their indices
			for nready < n+1 {
				simrt.Park(&ready)
			}
			w.Meet(9999, 2)
			if tc.Login("tempacct", "", "tempuser", 77) {
				w.Probe("login_survived_account_deletion_race")
				Delay(30)
			}
			tc.Disconnect()
		})
	}
	for i := 0; i <= n; i++ {
		idx := i
		names[i] = fmt.Sprintf("user%d", i)
		c := w.NewClient(names[i], fmt.Sprintf("10.1.0.%d", i+1))
		w.Sim.Go(fmt.Sprintf("c%d", i), true, func() {
			if cfg["wrap"] > 0 && idx >= cfg["wrap_after"] {
				for !wrapDone {
					simrt.Park(&wrapQ)
				}
			}
			Delay(cfg[fmt.Sprintf("late%d", idx)])
			takeTurn()
			login, pw := fmt.Sprintf("acct%d", idx), ""
			if idx == n {
				login, pw = "root", "rootpw"
				adminBit[idx] = true
			}
			icons[idx] = uint16(100 + idx)
			opts[idx] = cfg[fmt.Sprintf("opts%d", idx)]
			ok := false
			if cfg[fmt.Sprintf("flav%d", idx)] == 1 {
				// 1.2.3 flavour: name and icon in the login, no agreed transaction, no options
				opts[idx] = 0
				ok = c.Login(login, pw, names[idx], icons[idx])
			} else {
				if opts[idx]&4 != 0 {
					auto[idx] = fmt.Sprintf("auto-%d", idx)
				}
				ok = c.Login(login, pw, "", 0) && c.Agree(names[idx], icons[idx], uint16(opts[idx]), auto[idx])
			}
			nready++
			simrt.Wake(&ready)
			if !ok {
				w.Violate("c13-login", "client %d could not log in: %v", idx, c.FrameErr)
				gone[idx] = true
				giveTurn()
				finish()
				return
			}
			loggedIn[idx] = true
			c.Request(rp.TGetUserNameList) // the list this observer folds notifications into
			var found bool
			uid[idx], found = c.FindMyUserID()
			hasID[idx] = found
			if !found {
				w.Violate("c13-self-missing-from-list", "client %d (logged in as %q) does not find itself in the user list", idx, names[idx])
			}
			if cfg["wrap"] > 0 && idx < cfg["wrap_after"] {
				early++
				if early == min(cfg["wrap_after"], n+1) {
					wantWrap = true
				}
			}
			giveTurn()
			orng := rand.New(rand.NewSource(w.Case.Seed ^ int64(idx+1)*7919))
			if idx == n && cfg["ghostrace"] == 1 {
				for nready < n+1 {
					simrt.Park(&ready)
				}
				w.Meet(9999, 2)
				Delay(orng.Intn(40))
				c.DeleteUser("tempacct")
				away[idx] = false
				w.Probe("account_deleted_during_a_login")
			}
			for _, op := range w.Case.Ops {
				if op.C != idx || c.Closed {
					continue
				}
				if op.K != "delay" && op.K != "meet" {
					takeTurn()
				}
				switch op.K {
				case "delay":
					Delay(op.N[0])
					continue
				case "meet":
					if !serial {
						w.Meet(op.N[0], op.N[1])
						if idx != n {
							// the server cuts a kicked user off one second after the request: act at that very instant
							simrt.Sleep(time.Second)
						}
					}
					continue
				case "rename":
					ver[idx]++
					names[idx] = fmt.Sprintf("user%d-%s", idx, randText(orng, op.N[0]))
					if op.N[0] == 0 {
						names[idx] = ""
						w.Probe("nameless_users")
					}
					icons[idx] = uint16(op.N[1])
					c.Name = names[idx]
					f := []rp.Field{rp.FS(rp.FUserName, names[idx]), rp.F16(rp.FUserIconID, icons[idx])}
					c.Request(rp.TSetClientUserInfo, f...)
					away[idx] = false
					c.Do(rp.TKeepAlive)
					ver[idx]++
				case "opts":
					ver[idx]++
					opts[idx] = op.N[0]
					auto[idx] = ""
					f := []rp.Field{rp.FS(rp.FUserName, names[idx]), rp.F16(rp.FUserIconID, icons[idx]), rp.F16(rp.FOptions, uint16(opts[idx]))}
					if opts[idx]&4 != 0 {
						auto[idx] = fmt.Sprintf("auto-%d-%d", idx, op.N[0])
						f = append(f, rp.FS(rp.FAutomaticResponse, auto[idx]))
					}
					c.Request(rp.TSetClientUserInfo, f...)
					away[idx] = false
					c.Do(rp.TKeepAlive)
					ver[idx]++
				case "pm":
					t := op.N[0]
					if t == idx || !hasID[t] || quitter[t] || !loggedIn[t] {
						giveTurnQuick()
						continue
					}
					v0 := ver[t]
					body := fmt.Sprintf("pm-%d-%d-%s", idx, len(pms), randText(orng, op.N[1]))
					// the recipient's settings must be stable while the message is in flight for an exact verdict
					rec := pmRec{from: idx, to: t, body: body, toID: uid[t], toOpts: opts[t], toAuto: auto[t]}
					rep, ok := c.Do(rp.TSendInstantMsg, rp.F16(rp.FUserID, uid[t]), rp.F16(rp.FOptions, 1), rp.FS(rp.FData, body))
					away[idx] = false
					rec.stable = ok && rep.Err == 0 && v0%2 == 0 && ver[t] == v0
					pms = append(pms, rec)
				case "info":
					t := op.N[0]
					if !hasID[t] || quitter[t] || !loggedIn[t] {
						giveTurnQuick()
						continue
					}
					v0 := ver[t]
					wantName := names[t]
					rep, ok := c.Do(rp.TGetClientInfoText, rp.F16(rp.FUserID, uid[t]))
					away[idx] = false
					if ok && rep.Err == 0 {
						nm, _ := rep.Get(rp.FUserName)
						if v0%2 == 0 && ver[t] == v0 && string(nm) != wantName {
							w.Violate("c13-info-wrong-user", "get-info for id %d (client %d, %q) returned user %q", uid[t], t, wantName, nm)
						}
					}
				case "idlerace":
					if cfg["nopart2"] == 1 {
						giveTurnQuick()
						continue
					}
					// activity now, then silence until the tick at which the idle time first exceeds 300 s (the 31st
					// tick from here), then activity at that very instant: marking and un-marking race inside the server
					touch := func() {
						ver[idx]++
						c.Request(rp.TSetClientUserInfo, rp.FS(rp.FUserName, names[idx]), rp.F16(rp.FUserIconID, icons[idx]))
						c.Do(rp.TKeepAlive)
						ver[idx]++
					}
					touch()
					ticks := int(time.Since(tickerStart) / (10 * time.Second))
					target := tickerStart.Add(time.Duration(ticks+31) * 10 * time.Second)
					simrt.Sleep(time.Until(target))
					touch()
					away[idx] = false
					w.Probe("activity_at_the_idle_marking_tick")
				case "idle":
					if cfg["nopart2"] == 1 {
						giveTurnQuick()
						continue
					}
					// no request for more than 300 simulated seconds: the server marks the user away
					simrt.Sleep(330 * time.Second)
					away[idx] = true
				case "kick":
					t := op.N[0]
					if idx != n || !hasID[t] || gone[t] || !loggedIn[t] {
						giveTurnQuick()
						continue
					}
					gone[t] = true
					c.DisconnectUser(uid[t], 0)
					away[idx] = false
					w.Probe("users_kicked_by_administrator")
				case "adminflag":
					if cfg["nopart2"] == 1 {
						giveTurnQuick()
						continue
					}
					t := op.N[0]
					a := base
					if op.N[1] == 1 {
						a = a.With(rp.PDisconUser)
					}
					if rep, ok := c.SetUser(fmt.Sprintf("acct%d", t), fmt.Sprintf("Acct %d", t), a, PwAbsent, ""); ok && rep.Err == 0 {
						adminBit[t] = op.N[1] == 1
					}
					away[idx] = false
				case "quit":
					gone[idx] = true
					c.Disconnect()
					giveTurn()
					finish()
					return
				case "reset":
					gone[idx] = true
					c.Conn.Reset()
					giveTurn()
					finish()
					return
				}
				giveTurn()
			}
			// wait until every client has issued all its operations, let traffic settle, then fetch the server's current list
			finish()
			for finished < n+1 {
				simrt.Park(&fin)
			}
			simrt.Sleep(8 * time.Second)
			if c.Closed {
				woken++
				simrt.Wake(&fin)
				return
			}
			// every remaining user becomes active once more (clears any away mark and tells the others), then,
			// when that traffic has settled, fetches the server's current list
			c.UserList()
			woken++
			simrt.Wake(&fin)
			for woken < n+1-goneCount() {
				simrt.Park(&fin)
			}
			simrt.Sleep(6 * time.Second)
			fresh, ok := c.UserList()
			if !ok {
				w.Violate("c13-final-list", "client %d could not fetch the final user list", idx)
				return
			}
			away[idx] = false
			c.Final = fresh
		})
	}
	w.Sim.Run()

	for _, c := range w.Clients {
		if c.FrameErr != nil {
			w.Violate("c13-malformed-stream", "client %d: %v", c.Idx, c.FrameErr)
			return
		}
		if c.Idx <= n && !gone[c.Idx] && c.Closed {
			w.Violate("c13-connection-lost", "client %d lost its connection: %v", c.Idx, c.CloseErr)
			return
		}
	}

	// model of who is online
	model := map[uint16]c13User{}
	idSeen := map[uint16]int{}
	for i := 0; i <= n; i++ {
		if !loggedIn[i] || gone[i] {
			continue
		}
		if prev, dup := idSeen[uid[i]]; dup {
			w.Violate("c13-duplicate-user-id", "clients %d and %d are both connected with user id %d", prev, i, uid[i])
		}
		idSeen[uid[i]] = i
		fl := uint16(0)
		if adminBit[i] {
			fl |= flagAdmin
		}
		if opts[i]&1 != 0 {
			fl |= flagRefusePM
		}
		if opts[i]&2 != 0 {
			fl |= flagRefuseCh
		}
		model[uid[i]] = c13User{uid[i], names[i], icons[i], fl}
	}

	for _, c := range w.Clients {
		if c.Idx > n || gone[c.Idx] || !loggedIn[c.Idx] || c.Final == nil {
			continue
		}
		fresh := map[uint16]c13User{}
		for _, u := range c.Final {
			if _, dup := fresh[u.ID]; dup {
				w.Violate("c13-duplicate-id-in-list", "user list contains id %d twice", u.ID)
			}
			fresh[u.ID] = c13User{u.ID, u.Name, u.Icon, u.Flags} // nobody is away any more: every user was just active
		}
		// the fresh list against the model: every connected user exactly once with its current name/icon/flags
		if rosterString(fresh) != rosterString(model) {
			sig := "c13-list-differs-from-connected-users"
			if len(fresh) < len(model) {
				sig = "c13-live-user-missing-from-list"
			} else if len(fresh) > len(model) {
				sig = "c13-ghost-user-in-list"
			}
			w.Violate(sig, "client %d: server's user list %s, connected users are %s", c.Idx, rosterString(fresh), rosterString(model))
			continue
		}
		folded, ok := foldRoster(c)
		if !ok {
			w.Violate("c13-no-list-reply", "client %d never got its user list", c.Idx)
			continue
		}
		if rosterString(folded) != rosterString(fresh) {
			w.Violate("c13-roster-does-not-converge", "client %d: list folded from notifications %s, server's current list %s", c.Idx, rosterString(folded), rosterString(fresh))
		}
	}

	// targeted private messages reach exactly the addressed user and honour refuse / automatic reply
	for _, p := range pms {
		if !p.stable || gone[p.to] || gone[p.from] {
			continue
		}
		for _, c := range w.Clients {
			if c.Idx > n {
				continue
			}
			got := 0
			for _, r := range c.InboxOf(rp.TServerMsg) {
				if d, _ := r.T.Get(rp.FData); string(d) == p.body {
					got++
				}
			}
			want := 0
			if c.Idx == p.to && p.toOpts&1 == 0 {
				want = 1
			}
			if got != want {
				sig := "c13-private-message-misdelivered"
				if c.Idx == p.to && want == 1 {
					sig = "c13-private-message-lost"
				} else if c.Idx == p.to {
					sig = "c13-refuse-flag-ignored"
				}
				w.Violate(sig, "private message from client %d to id %d (client %d, options %03b): client %d received it %d times, want %d", p.from, p.toID, p.to, p.toOpts, c.Idx, got, want)
			}
		}
		if p.toAuto != "" {
			got := 0
			for _, r := range w.Clients[p.from].InboxOf(rp.TServerMsg) {
				if d, _ := r.T.Get(rp.FData); string(d) == p.toAuto {
					got++
				}
			}
			if got == 0 {
				w.Violate("c13-automatic-reply-missing", "client %d has automatic reply %q but sender %d never received it", p.to, p.toAuto, p.from)
			}
		}
	}
}

func init() {
	Register(&Scenario{ID: "C13", Gen: genC13, Run: runC13, Mask: map[string]int{"serial": 1, "fifo_senders": 1},
		AltMasks: []map[string]int{{"fifo_senders": 1, "nopart2": 1}}})
}
