module simify

go 1.23
