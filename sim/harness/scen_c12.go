package harness

import (
	"bytes"
	"fmt"
	"math/rand"
	"strings"

	rp "github.com/jhalter/mobius/verifsim/refproto"
)

// C12: chat reaches exactly its audience (DESIGN §6 C12, interval rule §4.3).

// chatLine renders a chat line in the protocol's format, cut to the 8192-byte limit.
func chatLine(name, msg string, emote bool) string {
	var s string
	if emote {
		s = "\r*** " + name + " " + msg
	} else {
		n := name
		if len(n) > 13 {
			n = n[:13]
		}
		s = "\r" + strings.Repeat(" ", 13-len(n)) + n + ":  " + msg
	}
	if len(s) > 8192 {
		s = s[:8192]
	}
	return s
}

type ival struct{ inv, ret uint64 }

type period struct {
	join  ival
	leave *ival
}

type c12Msg struct {
	tag     string
	kind    string // "pub", "priv", "subject", "joinnote", "leavenote", "declnote"
	slot    int
	sender  int
	iv      ival
	payload string // expected data / subject
	about   uint16 // user id the notice is about
	refused bool   // sender lacked the privilege: nobody may receive it
	reqID   uint32
}

func genC12(rng *rand.Rand, c *Case) {
	c.Cfg["policy"] = rng.Intn(3)
	// a third of the cases make every function entry of the server a scheduling point (races on lock-free shared state)
	c.Cfg["fnyield"] = rng.Intn(3) / 2
	c.Cfg["seg_s2c"] = rng.Intn(2)
	n := 2 + rng.Intn(6)
	c.Cfg["clients"] = n
	for i := 0; i < n; i++ {
		acc := 7
		if rng.Intn(4) == 0 {
			acc = rng.Intn(8)
		}
		c.Cfg[fmt.Sprintf("acc%d", i)] = acc
		c.Cfg[fmt.Sprintf("nlen%d", i)] = []int{1, 5, 12, 13, 14, 30}[rng.Intn(6)]
		if rng.Intn(3) == 0 {
			c.Cfg[fmt.Sprintf("late%d", i)] = rng.Intn(150)
		}
	}
	slots := 0
	msgLen := func() int {
		switch rng.Intn(8) {
		case 0:
			return 0
		case 1:
			return 8150 + rng.Intn(60)
		case 2:
			return 9000
		}
		return rng.Intn(60)
	}
	if n >= 4 && rng.Intn(3) == 0 {
		// a crowded chat: everybody joins the first chat early, then several pairs of members act on it at the same
		// instant (one speaks or changes the subject while another leaves or comes back)
		c.Ops = append(c.Ops, Op{C: 0, K: "mkchat", N: []int{1, slots}})
		for i := 1; i < n; i++ {
			c.Ops = append(c.Ops, Op{C: i, K: "delay", N: []int{20 + rng.Intn(40)}}, Op{C: i, K: "join", N: []int{slots}})
		}
		for r := 0; r < 2+rng.Intn(4); r++ {
			a := rng.Intn(n)
			b := (a + 1 + rng.Intn(n-1)) % n
			id := 1000 + r
			c.Ops = append(c.Ops, Op{C: a, K: "meet", N: []int{id, 2}}, Op{C: b, K: "meet", N: []int{id, 2}})
			if rng.Intn(3) == 0 {
				c.Ops = append(c.Ops, Op{C: a, K: "subject", N: []int{slots, rng.Intn(40)}})
			} else {
				c.Ops = append(c.Ops, Op{C: a, K: "psay", N: []int{slots, rng.Intn(60), 0}})
			}
			c.Ops = append(c.Ops, Op{C: b, K: []string{"leave", "leave", "join"}[rng.Intn(3)], N: []int{slots}})
		}
		slots++
	}
	total := 8 + rng.Intn(40)
	for j := 0; j < total; j++ {
		ci := rng.Intn(n)
		switch k := rng.Intn(20); {
		case k < 5:
			c.Ops = append(c.Ops, Op{C: ci, K: "say", N: []int{msgLen(), rng.Intn(4) / 3}})
		case k < 8:
			c.Ops = append(c.Ops, Op{C: ci, K: "mkchat", N: []int{rng.Intn(n), slots}})
			slots++
		case k < 11 && slots > 0:
			c.Ops = append(c.Ops, Op{C: ci, K: "join", N: []int{rng.Intn(slots)}})
		case k < 13 && slots > 0:
			c.Ops = append(c.Ops, Op{C: ci, K: "leave", N: []int{rng.Intn(slots)}})
		case k < 14 && slots > 0:
			c.Ops = append(c.Ops, Op{C: ci, K: "decline", N: []int{rng.Intn(slots)}})
		case k < 15 && slots > 0:
			c.Ops = append(c.Ops, Op{C: ci, K: "subject", N: []int{rng.Intn(slots), rng.Intn(40)}})
		case k < 18 && slots > 0:
			c.Ops = append(c.Ops, Op{C: ci, K: "psay", N: []int{rng.Intn(slots), msgLen(), rng.Intn(4) / 3}})
		case k < 19 && slots > 0 && n >= 2 && rng.Intn(2) == 0:
			// two clients act on the same chat at the same instant: one changes the subject (or speaks, or leaves),
			// the other joins (or leaves)
			cj := (ci + 1 + rng.Intn(n-1)) % n
			slot := rng.Intn(slots)
			c.Ops = append(c.Ops, Op{C: ci, K: "meet", N: []int{j, 2}}, Op{C: cj, K: "meet", N: []int{j, 2}})
			switch rng.Intn(3) {
			case 0:
				c.Ops = append(c.Ops, Op{C: ci, K: "subject", N: []int{slot, rng.Intn(40)}})
			case 1:
				c.Ops = append(c.Ops, Op{C: ci, K: "psay", N: []int{slot, rng.Intn(60), 0}})
			case 2:
				c.Ops = append(c.Ops, Op{C: ci, K: "leave", N: []int{slot}})
			}
			c.Ops = append(c.Ops, Op{C: cj, K: []string{"join", "join", "leave"}[rng.Intn(3)], N: []int{slot}})
		case k < 19:
			c.Ops = append(c.Ops, Op{C: ci, K: "delay", N: []int{rng.Intn(40)}})
		default:
			if rng.Intn(3) == 0 {
				c.Ops = append(c.Ops, Op{C: ci, K: "quit"})
			}
		}
	}
	c12Frozen(rng, c)
}

// c12Frozen adds, to a quarter of the cases, a logged-in reader whose connection has gone dead without being closed (it
// never reads again and no FIN or RST arrives) while one of the others speaks often enough that dozens of transactions
// are addressed to it: everybody else must go on receiving every line.
func c12Frozen(rng *rand.Rand, c *Case) {
	if rng.Intn(4) != 0 {
		return
	}
	c.Cfg["frozen"] = 1
	c.Cfg["sendbuf"] = []int{512, 2048, 16384}[rng.Intn(3)]
	at := rng.Intn(len(c.Ops) + 1)
	flood := Op{C: rng.Intn(c.Cfg["clients"]), K: "flood", N: []int{36 + rng.Intn(40), rng.Intn(60)}}
	c.Ops = append(c.Ops[:at], append([]Op{flood}, c.Ops[at:]...)...)
}

func runC12(w *World) {
	cfg := w.Case.Cfg
	n := cfg["clients"]
	names := make([]string, n)
	for i := 0; i < n; i++ {
		var a rp.Access
		a.Set(rp.PAnyName)
		acc := cfg[fmt.Sprintf("acc%d", i)]
		if acc&1 != 0 {
			a.Set(rp.PReadChat)
		}
		if acc&2 != 0 {
			a.Set(rp.PSendChat)
		}
		if acc&4 != 0 {
			a.Set(rp.POpenChat)
		}
		w.AddAccount(fmt.Sprintf("acct%d", i), "Account", "", a)
		nm := fmt.Sprintf("u%d", i)
		names[i] = nm + strings.Repeat("x", max(0, cfg[fmt.Sprintf("nlen%d", i)]-len(nm)))
	}
	w.AddAccount("guest", "Guest", "", rp.Access{})
	w.AddAccount("frozen", "Frozen", "", rp.AccessOf(rp.PAnyName, rp.PReadChat))
	w.StartServer()

	chatID := map[int][]byte{}          // slot -> chat id
	toldByJoin := map[[2]int][]string{} // (slot, client) -> subjects carried by its join replies
	periods := map[[2]int][]*period{}   // (slot, client) -> membership periods
	loginRet := make([]uint64, n)       // step at which the login reply arrived (0 = never)
	loginInv := make([]uint64, n)
	quit := make([]bool, n)
	uid := make([]uint16, n)
	var msgs []*c12Msg
	seq := 0
	quitter := make([]bool, n)
	for _, op := range w.Case.Ops {
		if op.K == "quit" && op.C < n {
			quitter[op.C] = true
		}
	}
	declined := map[[2]int]bool{}

	for i := 0; i < n; i++ {
		idx := i
		c := w.NewClient(names[i], fmt.Sprintf("10.1.0.%d", i+1))
		w.Sim.Go(fmt.Sprintf("c%d", i), true, func() {
			Delay(cfg[fmt.Sprintf("late%d", idx)])
			loginInv[idx] = w.Sim.Step
			if !c.Login(fmt.Sprintf("acct%d", idx), "", "", 0) || !c.Agree(c.Name, uint16(idx), 0, "") {
				w.Violate("c12-login", "client %d could not log in: %v", idx, c.FrameErr)
				quit[idx] = true
				return
			}
			loginRet[idx] = w.Sim.Step
			uid[idx] = c.MyUserID()
			acc := cfg[fmt.Sprintf("acc%d", idx)]
			fence := func() uint64 {
				c.Do(rp.TKeepAlive)
				return w.Sim.Step
			}
			isMember := func(slot int) bool {
				ps := periods[[2]int{slot, idx}]
				return len(ps) > 0 && ps[len(ps)-1].leave == nil
			}
			orng := rand.New(rand.NewSource(w.Case.Seed ^ int64(idx+1)*7907))
			for _, op := range w.Case.Ops {
				if op.C != idx || c.Closed {
					continue
				}
				switch op.K {
				case "delay":
					Delay(op.N[0])
				case "meet":
					w.Meet(op.N[0], op.N[1])
				case "quit":
					quit[idx] = true
					c.Disconnect()
					return
				case "say", "flood":
					if op.K == "flood" {
						for k := 0; k < op.N[0] && !c.Closed; k++ {
							seq++
							tag := fmt.Sprintf("m%d:", seq)
							body := tag + randText(orng, op.N[1])
							m := &c12Msg{tag: tag, kind: "pub", sender: idx, payload: chatLine(c.Name, body, false), refused: acc&2 == 0}
							m.iv.inv = w.Sim.Step
							m.reqID = c.Request(rp.TChatSend, rp.FS(rp.FData, body))
							m.iv.ret = fence()
							msgs = append(msgs, m)
						}
						w.Probe("floods_of_public_chat")
						continue
					}
					seq++
					tag := fmt.Sprintf("m%d:", seq)
					body := tag + randText(orng, op.N[0])
					emote := op.N[1] == 1
					m := &c12Msg{tag: tag, kind: "pub", sender: idx, payload: chatLine(c.Name, body, emote), refused: acc&2 == 0}
					m.iv.inv = w.Sim.Step
					f := []rp.Field{rp.FS(rp.FData, body)}
					if emote {
						f = append(f, rp.F16(rp.FChatOptions, 1))
					}
					id := c.Request(rp.TChatSend, f...)
					m.iv.ret = fence()
					m.reqID = id
					msgs = append(msgs, m)
				case "mkchat":
					tgt := op.N[0]
					if uid[tgt] == 0 || quitter[tgt] {
						// inviting a user that leaves at the same moment is exercised by C03/C13, not here
						continue
					}
					inv := w.Sim.Step
					rep, ok := c.Do(rp.TInviteNewChat, rp.F16(rp.FUserID, uid[tgt]))
					if !ok {
						continue
					}
					if acc&4 == 0 {
						if rep.Err == 0 {
							w.Violate("c12-open-chat-without-privilege", "client %d lacks open-chat but created a private chat", idx)
						}
						continue
					}
					if id, has := rep.Get(rp.FChatID); has && rep.Err == 0 && len(id) == 4 {
						chatID[op.N[1]] = id
						periods[[2]int{op.N[1], idx}] = append(periods[[2]int{op.N[1], idx}], &period{join: ival{inv, w.Sim.Step}})
					}
				case "join":
					id, has := chatID[op.N[0]]
					if !has || isMember(op.N[0]) {
						continue
					}
					p := &period{join: ival{inv: w.Sim.Step}}
					// registered before the request is sent: membership may begin any time from now
					periods[[2]int{op.N[0], idx}] = append(periods[[2]int{op.N[0], idx}], p)
					p.join.ret = ^uint64(0)
					m := &c12Msg{kind: "joinnote", slot: op.N[0], sender: idx, about: uid[idx], iv: ival{inv: w.Sim.Step}}
					jrep, ok := c.Do(rp.TJoinChat, rp.F(rp.FChatID, id))
					if sub, has := jrep.Get(rp.FChatSubject); ok && has {
						toldByJoin[[2]int{op.N[0], idx}] = append(toldByJoin[[2]int{op.N[0], idx}], string(sub))
					}
					p.join.ret = w.Sim.Step
					m.iv.ret = w.Sim.Step
					if ok {
						msgs = append(msgs, m)
					}
				case "leave":
					id, has := chatID[op.N[0]]
					if !has || !isMember(op.N[0]) {
						continue
					}
					ps := periods[[2]int{op.N[0], idx}]
					lv := &ival{inv: w.Sim.Step, ret: ^uint64(0)}
					ps[len(ps)-1].leave = lv
					m := &c12Msg{kind: "leavenote", slot: op.N[0], sender: idx, about: uid[idx], iv: ival{inv: w.Sim.Step}}
					c.Request(rp.TLeaveChat, rp.F(rp.FChatID, id))
					lv.ret = fence()
					m.iv.ret = lv.ret
					msgs = append(msgs, m)
				case "decline":
					id, has := chatID[op.N[0]]
					if !has || isMember(op.N[0]) || len(periods[[2]int{op.N[0], idx}]) > 0 || declined[[2]int{op.N[0], idx}] {
						continue
					}
					declined[[2]int{op.N[0], idx}] = true
					m := &c12Msg{kind: "declnote", slot: op.N[0], sender: idx, payload: c.Name + " declined invitation to chat", iv: ival{inv: w.Sim.Step}}
					c.Request(rp.TRejectChatInvite, rp.F(rp.FChatID, id))
					m.iv.ret = fence()
					msgs = append(msgs, m)
				case "subject":
					id, has := chatID[op.N[0]]
					if !has {
						continue
					}
					seq++
					m := &c12Msg{kind: "subject", slot: op.N[0], sender: idx, payload: fmt.Sprintf("s%d:%s", seq, randText(orng, op.N[1])), iv: ival{inv: w.Sim.Step}}
					c.Request(rp.TSetChatSubject, rp.F(rp.FChatID, id), rp.FS(rp.FChatSubject, m.payload))
					m.iv.ret = fence()
					msgs = append(msgs, m)
				case "psay":
					id, has := chatID[op.N[0]]
					if !has {
						continue
					}
					seq++
					tag := fmt.Sprintf("m%d:", seq)
					body := tag + randText(orng, op.N[1])
					emote := op.N[2] == 1
					m := &c12Msg{tag: tag, kind: "priv", slot: op.N[0], sender: idx, payload: chatLine(c.Name, body, emote), refused: acc&2 == 0, iv: ival{inv: w.Sim.Step}}
					f := []rp.Field{rp.FS(rp.FData, body), rp.F(rp.FChatID, id)}
					if emote {
						f = append(f, rp.F16(rp.FChatOptions, 1))
					}
					c.Request(rp.TChatSend, f...)
					m.iv.ret = fence()
					msgs = append(msgs, m)
				}
			}
			Settle()
		})
	}
	if cfg["frozen"] == 1 {
		fz := w.NewClient("frozen", "10.1.9.9")
		w.Sim.Go("frozen", true, func() {
			if !fz.Login("frozen", "", "", 0) || !fz.Agree(fz.Name, 9, 0, "") {
				w.Violate("c12-login", "the reader that is to freeze could not log in: %v", fz.FrameErr)
				return
			}
			fz.Conn.HoldIncoming(true)
			w.Probe("fault_frozen_reader")
		})
	}
	w.Sim.Run()

	for _, c := range w.Clients {
		if c.Idx >= n {
			continue // the frozen reader: nothing is expected of it
		}
		if c.FrameErr != nil {
			w.Violate("c12-malformed-stream", "client %d: %v", c.Idx, c.FrameErr)
			return
		}
		if !quit[c.Idx] && c.Closed {
			w.Violate("c12-connection-lost", "client %d lost its connection: %v", c.Idx, c.CloseErr)
			return
		}
	}

	memberThroughout := func(slot, r int, iv ival) bool {
		for _, p := range periods[[2]int{slot, r}] {
			if p.join.ret <= iv.inv && (p.leave == nil || p.leave.inv > iv.ret) {
				return true
			}
		}
		return false
	}
	neverMember := func(slot, r int, iv ival) bool {
		for _, p := range periods[[2]int{slot, r}] {
			if !(p.join.inv > iv.ret || (p.leave != nil && p.leave.ret < iv.inv)) {
				return false
			}
		}
		return true
	}
	for _, m := range msgs {
		if m.kind == "pub" && m.refused && !quit[m.sender] {
			if r := w.Clients[m.sender].Replies[m.reqID]; len(r) != 1 || r[0].T.Err == 0 {
				w.Violate("c12-send-without-privilege-not-refused", "client %d lacks send-chat but its chat request got %d replies / no error", m.sender, len(r))
			}
		}
		for r, c := range w.Clients {
			if r >= n {
				continue
			}
			cnt := 0
			for _, rc := range c.Inbox {
				t := rc.T
				cid, hasCid := t.Get(rp.FChatID)
				d, _ := t.Get(rp.FData)
				switch m.kind {
				case "pub":
					if t.Type == rp.TChatMsg && bytes.Contains(d, []byte(m.tag)) {
						if string(d) != m.payload {
							w.Violate("c12-chat-format", "public chat line delivered as %s, protocol format is %s", Short(d), Short([]byte(m.payload)))
						} else if hasCid && !bytes.Equal(cid, []byte{0, 0, 0, 0}) {
							w.Violate("c12-public-line-with-chat-id", "public chat line carries a chat id")
						}
						cnt++
					}
				case "priv":
					if t.Type == rp.TChatMsg && bytes.Contains(d, []byte(m.tag)) {
						if string(d) != m.payload {
							w.Violate("c12-chat-format", "private chat line delivered as %s, protocol format is %s", Short(d), Short([]byte(m.payload)))
						} else if !bytes.Equal(cid, chatID[m.slot]) {
							w.Violate("c12-private-line-wrong-chat-id", "private chat line carries chat id %x, want %x", cid, chatID[m.slot])
						}
						cnt++
					}
				case "declnote":
					if t.Type == rp.TChatMsg && string(d) == m.payload && bytes.Equal(cid, chatID[m.slot]) {
						cnt++
					}
				case "subject":
					if s, _ := t.Get(rp.FChatSubject); t.Type == rp.TNotifyChatSubject && string(s) == m.payload && bytes.Equal(cid, chatID[m.slot]) {
						cnt++
					}
				case "joinnote", "leavenote":
					want := uint16(rp.TNotifyChatChangeUser)
					if m.kind == "leavenote" {
						want = rp.TNotifyChatDeleteUser
					}
					u, _ := t.Get(rp.FUserID)
					if t.Type == want && bytes.Equal(cid, chatID[m.slot]) && len(u) == 2 && uint16(u[0])<<8|uint16(u[1]) == m.about && rc.Step >= m.iv.inv && rc.Step <= m.iv.ret+400000 {
						// notices about the same user in the same chat are told apart by the interval they fall in
						if countWithin(msgs, m, rc.Step) {
							cnt++
						}
					}
				}
			}
			acc := cfg[fmt.Sprintf("acc%d", r)]
			connectedThroughout := loginRet[r] != 0 && loginRet[r] <= m.iv.inv && !quit[r]
			neverConnected := loginRet[r] == 0 || loginInv[r] > m.iv.ret
			if m.kind == "joinnote" || m.kind == "leavenote" {
				// several join/leave cycles of one user are not individually attributable; only "never to non-members" and "at most one per cycle" are checked
				if cnt > 0 && neverMember(m.slot, r, m.iv) && noOtherCycle(msgs, m) {
					w.Violate("c12-"+m.kind+"-to-non-member", "client %d received a %s for chat slot %d without being a member", r, m.kind, m.slot)
				}
				if r != m.sender && connectedThroughout && memberThroughout(m.slot, r, m.iv) {
					// a notice can reach r after the same user's next cycle has begun, so it cannot be attributed to
					// one cycle by its arrival step: r must hold at least as many notices of this kind about this user
					// as there are cycles throughout which r was a connected member
					required, received := 0, 0
					for _, x := range msgs {
						if x.kind == m.kind && x.slot == m.slot && x.about == m.about && loginRet[r] <= x.iv.inv && memberThroughout(x.slot, r, x.iv) {
							required++
						}
					}
					want := uint16(rp.TNotifyChatChangeUser)
					if m.kind == "leavenote" {
						want = rp.TNotifyChatDeleteUser
					}
					for _, rc := range c.Inbox {
						cid, _ := rc.T.Get(rp.FChatID)
						u, _ := rc.T.Get(rp.FUserID)
						if rc.T.Type == want && bytes.Equal(cid, chatID[m.slot]) && len(u) == 2 && uint16(u[0])<<8|uint16(u[1]) == m.about {
							received++
						}
					}
					if received < required {
						w.Violate("c12-"+m.kind+"-missing", "member %d of chat slot %d holds %d notices that user %d joined/left, it was a connected member throughout %d such cycles", r, m.slot, received, m.about, required)
					}
				}
				continue
			}
			if cnt > 1 {
				w.Violate("c12-delivered-twice-"+m.kind, "client %d received %s %q %d times", r, m.kind, m.tag+Short([]byte(m.payload)), cnt)
				continue
			}
			switch m.kind {
			case "pub":
				switch {
				case m.refused && cnt > 0:
					w.Violate("c12-refused-line-delivered", "chat line of a sender without send-chat reached client %d", r)
				case acc&1 == 0 && cnt > 0:
					w.Violate("c12-public-line-to-non-reader", "client %d may not read chat but received a public chat line", r)
				case neverConnected && cnt > 0:
					w.Violate("c12-public-line-to-absent-user", "client %d received a public line sent while it was not connected", r)
				case !m.refused && acc&1 != 0 && connectedThroughout && cnt == 0:
					w.Violate("c12-public-line-missing", "client %d (connected throughout, may read chat) did not receive public line %s from client %d", r, m.tag, m.sender)
				}
			default:
				switch {
				case m.refused && cnt > 0:
					w.Violate("c12-refused-line-delivered", "private chat line of a sender without send-chat reached client %d", r)
				case cnt > 0 && neverMember(m.slot, r, m.iv):
					w.Violate("c12-"+m.kind+"-to-non-member", "client %d received %s of chat slot %d although it was not a member at any time the message was in flight (left, declined or never joined)", r, m.kind, m.slot)
				case !m.refused && cnt == 0 && connectedThroughout && memberThroughout(m.slot, r, m.iv):
					w.Violate("c12-"+m.kind+"-missing", "client %d, a member of chat slot %d throughout, did not receive %s %s", r, m.slot, m.kind, m.tag)
				}
			}
		}
	}
	// the current subject reaches everybody who is a member once the change is complete: a client whose join
	// overlaps the last subject change of a chat is told the new subject by its join reply or by a notice
	for slot := range chatID {
		var last *c12Msg
		for _, m := range msgs {
			if m.kind == "subject" && m.slot == slot && !m.refused && (last == nil || m.iv.inv > last.iv.inv) {
				last = m
			}
		}
		if last == nil {
			continue
		}
		alone := true
		for _, m := range msgs {
			if m != last && m.kind == "subject" && m.slot == slot && m.iv.ret >= last.iv.inv {
				alone = false // two subject changes in flight at once: no single current subject to demand
			}
		}
		if !alone {
			continue
		}
		for r, c := range w.Clients {
			if r >= n || quit[r] || loginRet[r] == 0 {
				continue
			}
			ps := periods[[2]int{slot, r}]
			if len(ps) == 0 {
				continue
			}
			p := ps[len(ps)-1]
			if p.join.ret == ^uint64(0) || p.leave != nil {
				continue // never completed the join, or left again
			}
			told := false
			for _, sub := range toldByJoin[[2]int{slot, r}] {
				told = told || sub == last.payload
			}
			for _, rc := range c.Inbox {
				cid, _ := rc.T.Get(rp.FChatID)
				sub, _ := rc.T.Get(rp.FChatSubject)
				if rc.T.Type == rp.TNotifyChatSubject && bytes.Equal(cid, chatID[slot]) && string(sub) == last.payload {
					told = true
				}
			}
			if r == last.sender {
				continue
			}
			w.Probe("subject_currency_checks")
			if !told {
				w.Violate("c12-member-never-told-current-subject", "client %d is a member of chat slot %d (joined at steps %d..%d) but was never told its current subject %q (set at steps %d..%d): neither by its join reply nor by a notice", r, slot, p.join.inv, p.join.ret, last.payload, last.iv.inv, last.iv.ret)
			}
		}
	}
}

// countWithin attributes a join/leave notice received at step to the cycle whose interval is the latest one starting at or before step.
func countWithin(msgs []*c12Msg, m *c12Msg, step uint64) bool {
	best := (*c12Msg)(nil)
	for _, x := range msgs {
		if x.kind == m.kind && x.slot == m.slot && x.about == m.about && x.iv.inv <= step {
			if best == nil || x.iv.inv > best.iv.inv {
				best = x
			}
		}
	}
	return best == m
}

func noOtherCycle(msgs []*c12Msg, m *c12Msg) bool {
	for _, x := range msgs {
		if x != m && x.kind == m.kind && x.slot == m.slot && x.about == m.about {
			return false
		}
	}
	return true
}

func init() {
	Register(&Scenario{ID: "C12", Gen: genC12, Run: runC12})
}
