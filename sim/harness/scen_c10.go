package harness

import (
	"bytes"
	"encoding/binary"
	"fmt"
	"math/rand"
	"os"
	"path/filepath"
	"sort"
	"strings"
	"time"

	rp "github.com/jhalter/mobius/verifsim/refproto"
	"github.com/jhalter/mobius/verifsim/simnet"
)

// C10: folder transfers reproduce the tree, item by item (DESIGN §6 C10).

type treeNode struct {
	Rel  string // slash separated path relative to the folder root
	Dir  bool
	Data []byte
	Dot  bool // name starts with a dot (must not be transferred)
}

// genTree builds a deterministic tree description.
func genTree(rng *rand.Rand, maxDepth, fan int) []treeNode {
	return genTreeOpt(rng, maxDepth, fan, false)
}

// genTreeOpt: dotDirs adds hidden folders that contain visible entries (their entries count and are sent,
// the hidden folder itself is not).
func genTreeOpt(rng *rand.Rand, maxDepth, fan int, dotDirs bool) []treeNode {
	var out []treeNode
	var rec func(prefix string, depth int)
	n := 0
	rec = func(prefix string, depth int) {
		k := rng.Intn(fan + 1)
		for i := 0; i < k; i++ {
			n++
			name := fmt.Sprintf("%s%d", []string{"a", "item ", "Z", "m-"}[rng.Intn(4)], n)
			rel := name
			if prefix != "" {
				rel = prefix + "/" + name
			}
			switch r := rng.Intn(10); {
			case r < 3 && depth < maxDepth:
				out = append(out, treeNode{Rel: rel, Dir: true})
				rec(rel, depth+1)
			case r == 3 && dotDirs && depth < maxDepth && rng.Intn(2) == 0:
				hid := prefix + "/"[:min(1, len(prefix))] + "." + name
				out = append(out, treeNode{Rel: hid, Dir: true, Dot: true})
				rec(hid, depth+1)
			case r == 3:
				out = append(out, treeNode{Rel: prefix + "/"[:min(1, len(prefix))] + "." + name, Data: GenData(int64(n), rng.Intn(50)), Dot: true})
			default:
				size := []int{0, 1, 100, 513, 4096, 33000}[rng.Intn(6)]
				out = append(out, treeNode{Rel: rel, Data: GenData(int64(n)*31, size)})
			}
		}
	}
	rec("", 0)
	return out
}

func writeTree(root string, nodes []treeNode) {
	must(os.MkdirAll(root, 0755))
	for _, nd := range nodes {
		p := filepath.Join(root, filepath.FromSlash(nd.Rel))
		if nd.Dir {
			must(os.MkdirAll(p, 0755))
		} else {
			must(os.MkdirAll(filepath.Dir(p), 0755))
			must(os.WriteFile(p, nd.Data, 0644))
		}
	}
}

// walkOrder returns the visible nodes in the order of a lexical depth-first walk.
func walkOrder(nodes []treeNode) []treeNode {
	var vis []treeNode
	for _, nd := range nodes {
		if !nd.Dot {
			vis = append(vis, nd)
		}
	}
	sort.Slice(vis, func(i, j int) bool {
		a, b := strings.Split(vis[i].Rel, "/"), strings.Split(vis[j].Rel, "/")
		for k := 0; k < len(a) && k < len(b); k++ {
			if a[k] != b[k] {
				return a[k] < b[k]
			}
		}
		return len(a) < len(b)
	})
	return vis
}

func genC10(rng *rand.Rand, c *Case) {
	c.Cfg["policy"] = rng.Intn(3)
	c.Cfg["seg_c2s"] = rng.Intn(4)
	c.Cfg["seg_s2c"] = rng.Intn(4)
	c.Cfg["mss"] = 1 + rng.Intn(300)
	c.Cfg["shortreads"] = rng.Intn(2)
	c.Cfg["treeseed"] = rng.Intn(1 << 30)
	c.Cfg["depth"] = rng.Intn(4)
	c.Cfg["fan"] = 1 + rng.Intn(5)
	c.Cfg["mode"] = rng.Intn(3) // 0 download, 1 upload, 2 upload then download (round trip)
	c.Cfg["twin"] = rng.Intn(2)  // download mode: a second client downloads another folder at the same time
	c.Cfg["choiceseed"] = rng.Intn(1 << 30)
	// 1/2 reset/close inside a resumed item, 3/4 close/reset inside a new item; 5/6: the client vanishes inside a
	// resumed / new item without a FIN or RST reaching the server, retries on a new connection, and the server learns
	// of the death of the old connection only after the retry is complete
	c.Cfg["cut"] = []int{0, 0, 0, 1, 2, 3, 4, 5, 6, 5}[rng.Intn(10)]
}

// folderItemHeader encodes one folder-upload item header.
func folderItemHeader(rel string, dir bool) []byte {
	items := strings.Split(rel, "/")
	pb := []byte{}
	for _, it := range items {
		pb = append(pb, 0, 0, byte(len(it)))
		pb = append(pb, it...)
	}
	b := make([]byte, 6)
	binary.BigEndian.PutUint16(b[0:], uint16(4+len(pb)))
	if dir {
		b[3] = 1
	}
	binary.BigEndian.PutUint16(b[4:], uint16(len(items)))
	return append(b, pb...)
}

func readN(x *simnet.Conn, n int) ([]byte, error) {
	buf := make([]byte, n)
	got := 0
	_ = x.SetReadDeadline(time.Now().Add(40 * time.Second))
	for got < n {
		k, err := x.Read(buf[got:])
		got += k
		if err != nil {
			return buf[:got], err
		}
	}
	return buf, nil
}

// folderDownload runs the reference folder-download client; returns false after recording a violation.
func (c *Client) folderDownload(w *World, folder string, nodes []treeNode, crng *rand.Rand) bool {
	rep, ok := c.Do(rp.TDownloadFldr, rp.FS(rp.FFileName, folder))
	if !ok || rep.Err != 0 {
		w.Violate("c10-download-refused", "folder download refused: %s", fieldStr(rep, rp.FError))
		return false
	}
	ref, _ := rep.Get(rp.FRefNum)
	cntB, _ := rep.Get(rp.FFolderItemCount)
	cnt, okc := rp.Int(cntB)
	if len(ref) != 4 || !okc {
		w.Violate("c10-download-reply-fields", "folder download reply lacks reference number / item count: %s", fieldSummary(rep))
		return false
	}
	want := walkOrder(nodes)
	if cnt != len(want) {
		w.Violate("c10-item-count", "reply announces %d items, the folder has %d visible files and sub-folders", cnt, len(want))
		return false
	}
	x := c.DialXfer()
	_, _ = x.Write(rp.XferPreamble(ref, 0))
	_, _ = x.Write([]byte{0, 3})
	defer x.Close()
	for i := 0; i < cnt; i++ {
		hs, err := readN(x, 2)
		if err != nil {
			w.Violate("c10-missing-item-header", "item %d of %d: no item header (%v); expected %q", i, cnt, err, want[i].Rel)
			return false
		}
		hl := int(binary.BigEndian.Uint16(hs))
		hb, err := readN(x, hl)
		if err != nil || hl < 4 {
			w.Violate("c10-item-header-truncated", "item %d: header of %d bytes: %v", i, hl, err)
			return false
		}
		isDir := binary.BigEndian.Uint16(hb[0:2]) == 1
		pc := int(binary.BigEndian.Uint16(hb[2:4]))
		p := hb[4:]
		var parts []string
		for k := 0; k < pc; k++ {
			if len(p) < 3 || len(p) < 3+int(p[2]) {
				w.Violate("c10-item-path-malformed", "item %d: path item %d of %d does not fit the header (%d bytes left)", i, k, pc, len(p))
				return false
			}
			parts = append(parts, string(p[3:3+int(p[2])]))
			p = p[3+int(p[2]):]
		}
		if len(p) != 0 {
			w.Violate("c10-item-path-malformed", "item %d: %d trailing bytes in the item header", i, len(p))
			return false
		}
		rel := strings.Join(parts, "/")
		if rel != want[i].Rel || isDir != want[i].Dir {
			w.Violate("c10-item-order-or-path", "item %d: server sent %q (dir=%v), depth-first order expects %q (dir=%v)", i, rel, isDir, want[i].Rel, want[i].Dir)
			return false
		}
		if isDir {
			_, _ = x.Write([]byte{0, 3})
			continue
		}
		data := want[i].Data
		choice := crng.Intn(4)
		k := 0
		switch choice {
		case 0:
			_, _ = x.Write([]byte{0, 3}) // skip
			w.Probe("folder_item_skipped")
			continue
		case 1:
			k = crng.Intn(len(data) + 1)
			rd := rp.ResumeData(uint32(k), 0, false)
			_, _ = x.Write(append([]byte{0, 2, byte(len(rd) >> 8), byte(len(rd))}, rd...))
			w.Probe("folder_item_resumed")
		default:
			_, _ = x.Write([]byte{0, 1})
			w.Probe("folder_item_sent")
		}
		sz, err := readN(x, 4)
		if err != nil {
			w.Violate("c10-missing-size-prefix", "file %q: no size prefix: %v", rel, err)
			return false
		}
		n := int(binary.BigEndian.Uint32(sz))
		if n > len(data)+2048 || n < 0 {
			w.Violate("c10-size-prefix-too-large", "file %q (choice %d, offset %d): size prefix announces %d bytes for a %d-byte file", rel, choice, k, n, len(data))
			return false
		}
		body, err := readN(x, n)
		if err != nil {
			w.Violate("c10-size-prefix-too-large", "file %q (choice %d, offset %d): size prefix %d but only %d bytes followed", rel, choice, k, n, len(body))
			return false
		}
		h, err := rp.DecodeFFOHead(body)
		if err != nil {
			w.Violate("c10-file-header", "file %q: %v", rel, err)
			return false
		}
		if !bytes.Equal(body[h.Len:], data[k:]) {
			sig := "c10-file-bytes"
			if k > 0 {
				sig = "c10-resumed-file-bytes"
			}
			w.Violate(sig, "file %q resumed from %d: size prefix %d covers header (%d) + %d bytes, want the %d bytes from the offset (announced data fork %d)", rel, k, n, h.Len, len(body)-h.Len, len(data)-k, h.DataSize)
			return false
		}
		if int(h.DataSize) != len(data)-k {
			w.Violate("c10-file-data-fork-size", "file %q resumed from %d: DATA fork header announces %d, %d bytes follow", rel, k, h.DataSize, len(data)-k)
			return false
		}
		_, _ = x.Write([]byte{0, 3})
	}
	// nothing may follow the last item
	_ = x.SetReadDeadline(time.Now().Add(5 * time.Second))
	extra := make([]byte, 64)
	if n, _ := x.Read(extra); n > 0 {
		w.Violate("c10-extra-item", "server sent %d more bytes after the announced %d items", n, cnt)
		return false
	}
	w.Probe("folder_downloads_completed")
	return true
}

// folderUpload streams nodes (visible ones) to the server; cutAt >= 0 resets the connection after that many file-data bytes of the first resumed file.
func (c *Client) folderUpload(w *World, folder string, nodes []treeNode, cut int) bool {
	vis := walkOrder(nodes)
	total := 0
	for _, nd := range vis {
		total += len(nd.Data)
	}
	rep, ok := c.Do(rp.TUploadFldr, rp.FS(rp.FFileName, folder), rp.F32(rp.FTransferSize, uint32(total)), rp.F16(rp.FFolderItemCount, uint16(len(vis))))
	if !ok || rep.Err != 0 {
		w.Violate("c10-upload-refused", "folder upload refused: %s", fieldStr(rep, rp.FError))
		return false
	}
	ref, _ := rep.Get(rp.FRefNum)
	x := c.DialXfer()
	abandoned := false
	defer func() {
		if !abandoned {
			x.Close()
		}
	}()
	_, _ = x.Write(rp.XferPreamble(ref, uint32(total)))
	if a, err := readN(x, 2); err != nil || a[1] != 3 {
		w.Violate("c10-upload-no-start", "server did not start the folder upload with a next-item action: %v %v", a, err)
		return false
	}
	root := filepath.Join(w.FileRoot, folder)
	for _, nd := range vis {
		_, _ = x.Write(folderItemHeader(nd.Rel, nd.Dir))
		a, err := readN(x, 2)
		if err != nil {
			w.Violate("c10-upload-no-action", "item %q: no action from the server: %v", nd.Rel, err)
			return false
		}
		if nd.Dir {
			if a[1] != 3 {
				w.Violate("c10-upload-folder-action", "folder item %q answered with action %d", nd.Rel, a[1])
				return false
			}
			continue
		}
		full := filepath.Join(root, filepath.FromSlash(nd.Rel))
		_, errFull := os.Stat(full)
		st, errPart := os.Stat(full + ".incomplete")
		switch a[1] {
		case 3: // skip: only legal when the complete file is already there
			if errFull != nil {
				w.Violate("c10-upload-skipped-missing-file", "server skipped %q although it does not have the file", nd.Rel)
				return false
			}
			w.Probe("upload_item_skipped")
		case 2: // resume
			l, err := readN(x, 2)
			if err != nil {
				return false
			}
			rd, err := readN(x, int(binary.BigEndian.Uint16(l)))
			if err != nil {
				return false
			}
			off, err := rp.DecodeResumeData(rd)
			if err != nil || errPart != nil || int64(off) != st.Size() {
				w.Violate("c10-upload-resume-offset", "resume of %q: offset %d, partial file size %v (%v %v)", nd.Rel, off, st, err, errPart)
				return false
			}
			w.Probe("upload_item_resumed")
			ffo := rp.EncodeFFO(rp.InfoFork{Platform: "AMAC", Type: "TEXT", Creator: "ttxt", Name: []byte(filepath.Base(nd.Rel))}, nd.Data[off:], nil, false)
			sz := make([]byte, 4)
			binary.BigEndian.PutUint32(sz, uint32(len(ffo)))
			if cut == 5 {
				_, _ = x.Write(append(sz, ffo[:len(ffo)-len(nd.Data[off:])/2-1]...))
				c.waitDrained(x)
				abandoned = true
				c.Abandoned = append(c.Abandoned, x)
				w.Probe("fault_client_vanishes_in_resumed_folder_item")
				return false
			}
			if cut == 1 || cut == 2 {
				// the connection dies in the middle of the resumed file: by a reset, or by the client closing it
				part := append(sz, ffo[:len(ffo)-len(nd.Data[off:])/2-1]...)
				_, _ = x.Write(part)
				c.waitDrained(x)
				if cut == 2 {
					_ = x.Close()
					w.Probe("fault_cut_by_close_in_resumed_folder_item")
				} else {
					x.Reset()
				}
				w.Probe("fault_cut_in_resumed_folder_item")
				Settle()
				if got, err := os.ReadFile(full); err == nil && !bytes.Equal(got, nd.Data) {
					w.Violate("c10-truncated-file-published", "connection cut while %q was being resumed: the final name now holds %d of %d bytes", nd.Rel, len(got), len(nd.Data))
				}
				return false
			}
			_, _ = x.Write(append(sz, ffo...))
			if a, err := readN(x, 2); err != nil || a[1] != 3 {
				w.Violate("c10-upload-no-next", "after resumed file %q: %v %v", nd.Rel, a, err)
				return false
			}
			if got, err := os.ReadFile(full); err != nil || !bytes.Equal(got, nd.Data) {
				w.Violate("c10-acknowledged-item-not-published", "the server asked for the next item after %q, but the final name holds %d bytes (err %v), the file has %d", nd.Rel, len(got), err, len(nd.Data))
				return false
			}
		case 1:
			if errFull == nil {
				w.Violate("c10-upload-overwrites", "server asks to send %q although it has the complete file", nd.Rel)
				return false
			}
			w.Probe("upload_item_sent")
			ffo := rp.EncodeFFO(rp.InfoFork{Platform: "AMAC", Type: "TEXT", Creator: "ttxt", Name: []byte(filepath.Base(nd.Rel))}, nd.Data, nil, false)
			sz := make([]byte, 4)
			binary.BigEndian.PutUint32(sz, uint32(len(ffo)))
			if cut == 6 && len(nd.Data) >= 2 {
				_, _ = x.Write(append(sz, ffo[:len(ffo)-len(nd.Data)/2-1]...))
				c.waitDrained(x)
				abandoned = true
				c.Abandoned = append(c.Abandoned, x)
				w.Probe("fault_client_vanishes_in_new_folder_item")
				return false
			}
			if (cut == 3 || cut == 4) && len(nd.Data) >= 2 {
				// the connection dies in the middle of a new file
				_, _ = x.Write(append(sz, ffo[:len(ffo)-len(nd.Data)/2-1]...))
				c.waitDrained(x)
				if cut == 3 {
					_ = x.Close()
				} else {
					x.Reset()
				}
				w.Probe("fault_cut_in_new_folder_item")
				Settle()
				if got, err := os.ReadFile(full); err == nil && !bytes.Equal(got, nd.Data) {
					w.Violate("c10-truncated-file-published", "connection cut (%s) while %q was being sent: the final name now holds %d of %d bytes", []string{"", "", "", "close", "reset"}[cut], nd.Rel, len(got), len(nd.Data))
				}
				return false
			}
			_, _ = x.Write(append(sz, ffo...))
			if a, err := readN(x, 2); err != nil || a[1] != 3 {
				w.Violate("c10-upload-no-next", "after file %q: %v %v", nd.Rel, a, err)
				return false
			}
			if got, err := os.ReadFile(full); err != nil || !bytes.Equal(got, nd.Data) {
				w.Violate("c10-acknowledged-item-not-published", "the server asked for the next item after %q, but the final name holds %d bytes (err %v), the file has %d", nd.Rel, len(got), err, len(nd.Data))
				return false
			}
		default:
			w.Violate("c10-upload-bad-action", "item %q: action %d", nd.Rel, a[1])
			return false
		}
	}
	c.waitClose(x, 10*time.Second)
	w.Probe("folder_uploads_completed")
	return true
}

func compareTree(w *World, root string, nodes []treeNode, sig string) {
	got := SnapshotTree(root)
	want := map[string]string{}
	for _, nd := range nodes {
		if nd.Dot {
			continue
		}
		if nd.Dir {
			want[nd.Rel] = "<dir>"
		} else {
			want[nd.Rel] = string(nd.Data)
		}
	}
	for k := range got {
		if strings.HasPrefix(filepath.Base(k), ".") {
			delete(got, k)
		}
	}
	if d := DiffTrees(want, got); len(d) > 0 {
		w.Violate(sig, "tree on the server differs from the streamed tree: %v", d[:min(len(d), 6)])
	}
}

func runC10(w *World) {
	cfg := w.Case.Cfg
	w.AddAccount("guest", "Guest", "", rp.AllAccess().With(rp.PNoAgreement))
	nodes := genTreeOpt(rand.New(rand.NewSource(int64(cfg["treeseed"]))), cfg["depth"], cfg["fan"], cfg["mode"] == 0)
	crng := rand.New(rand.NewSource(int64(cfg["choiceseed"])))
	mode := cfg["mode"]
	var twinNodes []treeNode
	if mode == 0 {
		writeTree(filepath.Join(w.FileRoot, "Folder"), nodes)
		if cfg["twin"] == 1 {
			twinNodes = genTreeOpt(rand.New(rand.NewSource(int64(cfg["treeseed"])+77)), cfg["depth"], cfg["fan"], true)
			writeTree(filepath.Join(w.FileRoot, "Twin"), twinNodes)
		}
	} else {
		// some files are already complete, some partial on the server
		must(os.MkdirAll(filepath.Join(w.FileRoot, "Folder"), 0755))
		for _, nd := range walkOrder(nodes) {
			if nd.Dir || len(nd.Data) < 2 {
				continue
			}
			p := filepath.Join(w.FileRoot, "Folder", filepath.FromSlash(nd.Rel))
			switch crng.Intn(4) {
			case 0:
				must(os.MkdirAll(filepath.Dir(p), 0755))
				must(os.WriteFile(p, nd.Data, 0644))
			case 1:
				must(os.MkdirAll(filepath.Dir(p), 0755))
				must(os.WriteFile(p+".incomplete", nd.Data[:1+crng.Intn(len(nd.Data)-1)], 0644))
			}
		}
	}
	w.StartServer()
	c := w.NewClient("xfer", "10.1.0.1")
	w.Sim.Go("c0", true, func() {
		if !c.Login("guest", "", c.Name, 1) {
			w.Violate("c10-login", "could not log in")
			return
		}
		switch mode {
		case 0:
			if twinNodes != nil {
				w.Meet(1, 2)
			}
			c.folderDownload(w, "Folder", nodes, crng)
		case 1, 2:
			cut := 0
			if mode == 1 {
				cut = cfg["cut"]
			}
			if !c.folderUpload(w, "Folder", nodes, cut) {
				if cut == 0 || len(w.Violations()) > 0 {
					return
				}
				// the upload was cut: the client tries again, and this time nothing interferes
				SettleShort()
				w.Probe("folder_upload_retried_after_cut")
				if !c.folderUpload(w, "Folder", nodes, 0) {
					if len(w.Violations()) == 0 {
						w.Violate("c10-retry-after-cut-fails", "a folder upload cut in mode %d could not be completed by a second attempt", cut)
					}
					return
				}
				compareTree(w, filepath.Join(w.FileRoot, "Folder"), nodes, "c10-uploaded-tree-differs-at-last-acknowledgement")
				for _, x := range c.Abandoned {
					x.Reset() // only now does the server learn that the first connection is dead
					w.Probe("fault_late_death_of_abandoned_connection")
				}
			}
			if cut == 0 {
				// every item has been acknowledged: a client that goes on at once (lists, downloads) must find the tree
				compareTree(w, filepath.Join(w.FileRoot, "Folder"), nodes, "c10-uploaded-tree-differs-at-last-acknowledgement")
				w.Probe("tree_compared_at_last_acknowledgement")
			}
			Settle()
			compareTree(w, filepath.Join(w.FileRoot, "Folder"), nodes, "c10-uploaded-tree-differs")
			if mode == 2 && len(w.Violations()) == 0 {
				SettleShort()
				c.folderDownload(w, "Folder", nodes, rand.New(rand.NewSource(1)))
			}
		}
	})
	if twinNodes != nil {
		c2 := w.NewClient("xfer2", "10.1.0.2")
		w.Sim.Go("c1", true, func() {
			if !c2.Login("guest", "", c2.Name, 1) {
				w.Violate("c10-login", "second client could not log in")
				return
			}
			w.Meet(1, 2)
			c2.folderDownload(w, "Twin", twinNodes, rand.New(rand.NewSource(int64(cfg["choiceseed"])+5)))
			w.Probe("concurrent_folder_downloads")
		})
	}
	w.Sim.Run()
	if c.FrameErr != nil {
		w.Violate("c10-malformed-stream", "%v", c.FrameErr)
	}
}

func init() {
	Register(&Scenario{ID: "C10", Gen: genC10, Run: runC10})
}
