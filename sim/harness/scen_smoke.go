package harness

import (
	"fmt"
	"math/rand"

	rp "github.com/jhalter/mobius/verifsim/refproto"
)

// C00 is an engine smoke test (not a property): a few clients log in and chat.
func init() {
	Register(&Scenario{
		ID: "C00",
		Gen: func(rng *rand.Rand, c *Case) {
			c.Cfg["policy"] = rng.Intn(3)
			c.Cfg["seg_c2s"] = rng.Intn(4)
			c.Cfg["clients"] = 2 + rng.Intn(3)
			for i := 0; i < 6; i++ {
				c.Ops = append(c.Ops, Op{C: rng.Intn(c.Cfg["clients"]), K: "chat", S: []string{fmt.Sprintf("hello %d", i)}})
			}
		},
		Run: func(w *World) {
			w.AddAccount("guest", "Guest", "", rp.AccessOf(rp.PReadChat, rp.PSendChat, rp.PNewsReadArt))
			w.AddAccount("admin", "Admin", "secret", rp.AllAccess())
			w.StartServer()
			n := w.Case.Cfg["clients"]
			for i := 0; i < n; i++ {
				c := w.NewClient(fmt.Sprintf("u%d", i), fmt.Sprintf("10.1.0.%d", i+1))
				idx := i
				w.Sim.Go(fmt.Sprintf("c%d", i), true, func() {
					if !c.Login("guest", "", "", 0) {
						w.Violate("smoke-login", "client %d could not log in", idx)
						return
					}
					c.Agree(c.Name, 1, 0, "")
					for _, op := range w.Case.Ops {
						if op.C == idx && op.K == "chat" {
							c.Request(rp.TChatSend, rp.FS(rp.FData, op.S[0]))
						}
					}
					Settle()
					us, ok := c.UserList()
					if !ok || len(us) != n {
						w.Violate("smoke-userlist", "client %d sees %d users, want %d", idx, len(us), n)
					}
				})
			}
			w.Sim.Run()
			total := 0
			for _, c := range w.Clients {
				if c.FrameErr != nil {
					w.Violate("smoke-frame", "client %d: %v", c.Idx, c.FrameErr)
				}
				total += len(c.InboxOf(rp.TChatMsg))
			}
			if total != len(w.Case.Ops)*n {
				w.Violate("smoke-chatcount", "chat deliveries %d, want %d", total, len(w.Case.Ops)*n)
			}
		},
	})
}
