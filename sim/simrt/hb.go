package simrt

import (
	"fmt"
	"reflect"
)

// VC is a vector clock indexed by thread id.
type VC []uint64

func (v VC) get(i int) uint64 {
	if i < len(v) {
		return v[i]
	}
	return 0
}

func (v *VC) set(i int, x uint64) {
	for len(*v) <= i {
		*v = append(*v, 0)
	}
	(*v)[i] = x
}

// forkVC returns the clock a child thread starts with and ticks the parent.
func (t *Thread) forkVC() VC {
	if s := Cur(); s == nil || !s.HB {
		return nil
	}
	t.ensureVC()
	c := make(VC, len(t.VC))
	copy(c, t.VC)
	t.VC[t.ID]++
	return c
}

func (v *VC) join(o VC) {
	for len(*v) < len(o) {
		*v = append(*v, 0)
	}
	for k, x := range o {
		if x > (*v)[k] {
			(*v)[k] = x
		}
	}
}

// SyncObj is embedded by simulated synchronisation objects to carry happens-before edges.
type SyncObj struct{ vc VC }

// Release publishes the calling thread's history on o (unlock, channel send, ...).
func (o *SyncObj) Release() {
	s := Cur()
	if s == nil || !s.HB {
		return
	}
	t := s.self()
	if t == nil {
		return
	}
	t.ensureVC()
	o.vc.join(t.VC)
	t.VC[t.ID]++
}

// Acquire makes everything released on o happen-before the calling thread's future (lock, receive).
func (o *SyncObj) Acquire() {
	s := Cur()
	if s == nil || !s.HB || o.vc == nil {
		return
	}
	t := s.self()
	if t == nil {
		return
	}
	t.ensureVC()
	t.VC.join(o.vc)
}

func (t *Thread) ensureVC() {
	if t.VC.get(t.ID) == 0 {
		t.VC.set(t.ID, 1)
	}
}

type access struct {
	tid   int
	clock uint64
	site  string
}

type mapState struct {
	w     *access
	reads map[int]access
	ref   any
}

// MapRace is one detected pair of conflicting, unordered accesses to a Go map.
type MapRace struct {
	Site1, Site2   string
	Write1, Write2 bool
}

func (r MapRace) String() string {
	k := func(w bool) string {
		if w {
			return "write"
		}
		return "read"
	}
	return fmt.Sprintf("%s@%s || %s@%s", k(r.Write1), r.Site1, k(r.Write2), r.Site2)
}

// MapAccess is inserted by simify before statements that touch a struct field of map type.
// It implements a happens-before race check restricted to Go maps (DESIGN §6 C03): an
// unsynchronised concurrent map access is a fatal, unrecoverable runtime error in a real process.
func MapAccess(m any, write bool, site string) {
	s := Cur()
	if s == nil || !s.HB {
		return
	}
	t := s.self()
	if t == nil {
		return
	}
	rv := reflect.ValueOf(m)
	if rv.Kind() != reflect.Map || rv.IsNil() {
		return
	}
	key := rv.Pointer()
	t.ensureVC()
	s.mu.Lock()
	defer s.mu.Unlock()
	if s.maps == nil {
		s.maps = map[uintptr]*mapState{}
	}
	ms := s.maps[key]
	if ms == nil {
		// ref keeps the map alive for the rest of the run: a collected map's address could be handed to a new map,
		// whose accesses would then be compared with the old map's history (a false, GC-dependent race report)
		ms = &mapState{reads: map[int]access{}, ref: m}
		s.maps[key] = ms
	}
	report := func(a access, aw bool) {
		if len(s.MapRaces) < 32 {
			s.MapRaces = append(s.MapRaces, MapRace{Site1: a.site, Write1: aw, Site2: site, Write2: write})
		}
	}
	if ms.w != nil && ms.w.tid != t.ID && ms.w.clock > t.VC.get(ms.w.tid) {
		report(*ms.w, true)
	}
	if write {
		for _, r := range ms.reads {
			if r.tid != t.ID && r.clock > t.VC.get(r.tid) {
				report(r, false)
			}
		}
		ms.w = &access{tid: t.ID, clock: t.VC[t.ID], site: site}
		ms.reads = map[int]access{}
	} else {
		ms.reads[t.ID] = access{tid: t.ID, clock: t.VC[t.ID], site: site}
	}
}

// ChanRelease / ChanAcquire are inserted around channel operations of instrumented code.  All
// channels share one synchronisation object: an over-approximation of happens-before that can
// only hide races from the map monitor, never invent one.
func ChanRelease() {
	if s := Cur(); s != nil {
		s.chanHB.Release()
	}
}

func ChanAcquire() {
	if s := Cur(); s != nil {
		s.chanHB.Acquire()
	}
}
