package harness

import (
	"fmt"
	"math/rand"
	"os"
	"path/filepath"
	"strings"

	rp "github.com/jhalter/mobius/verifsim/refproto"
)

// C05: every privileged effect requires the governing privilege (DESIGN §6 C05).
//
// privProbes is the privilege table transcribed from the protocol document: request kind x
// target kind -> governing privilege(s).  Every probe is built so that it SUCCEEDS when
// the requester holds all privileges (fresh target per probe).

type privProbe struct {
	Name  string
	Needs []int // all of these privileges are required
	// Build returns the request for probe instance k (k selects a fresh target)
	Build func(k int, env *c05Env) (uint16, []rp.Field)
	// Silent: a granted request of this kind has no reply (completion is fenced by a keep-alive)
	Silent bool
	// Any: Needs is a disjunction, and holding one of them is necessary, not sufficient: the target has no kind that
	// would say which of the two governs (an alias whose original is gone), so only "holds neither => refused, no
	// effect" is judged
	Any bool
}

type c05Env struct {
	BystanderID uint16
	VictimID    uint16
	ChatID      []byte
}

func fname(k int) rp.Field { return rp.FS(rp.FFileName, fmt.Sprintf("file%03d.txt", k)) }
func dname(k int) rp.Field { return rp.FS(rp.FFileName, fmt.Sprintf("dir%03d", k)) }

var privProbes = []privProbe{
	{Name: "delete-file", Needs: []int{rp.PDeleteFile}, Build: func(k int, e *c05Env) (uint16, []rp.Field) { return rp.TDeleteFile, []rp.Field{fname(k)} }},
	{Name: "delete-folder", Needs: []int{rp.PDeleteFolder}, Build: func(k int, e *c05Env) (uint16, []rp.Field) { return rp.TDeleteFile, []rp.Field{dname(k)} }},
	{Name: "delete-dangling-alias", Any: true, Needs: []int{rp.PDeleteFile, rp.PDeleteFolder}, Build: func(k int, e *c05Env) (uint16, []rp.Field) {
		return rp.TDeleteFile, []rp.Field{rp.FS(rp.FFileName, fmt.Sprintf("dangling%03d", k))}
	}},
	{Name: "move-dangling-alias", Any: true, Needs: []int{rp.PMoveFile, rp.PMoveFolder}, Build: func(k int, e *c05Env) (uint16, []rp.Field) {
		return rp.TMoveFile, []rp.Field{rp.FS(rp.FFileName, fmt.Sprintf("dangling%03d", k)), rp.F(rp.FFileNewPath, rp.FilePath("target"))}
	}},
	{Name: "rename-file", Needs: []int{rp.PRenameFile}, Build: func(k int, e *c05Env) (uint16, []rp.Field) {
		return rp.TSetFileInfo, []rp.Field{fname(k), rp.FS(rp.FFileNewName, fmt.Sprintf("renamed%02d.txt", k))}
	}},
	{Name: "rename-folder", Needs: []int{rp.PRenameFolder}, Build: func(k int, e *c05Env) (uint16, []rp.Field) {
		return rp.TSetFileInfo, []rp.Field{dname(k), rp.FS(rp.FFileNewName, fmt.Sprintf("renameddir%02d", k))}
	}},
	{Name: "comment-file", Needs: []int{rp.PSetFileComment}, Build: func(k int, e *c05Env) (uint16, []rp.Field) {
		return rp.TSetFileInfo, []rp.Field{fname(k), rp.FS(rp.FFileComment, "a comment")}
	}},
	{Name: "comment-folder", Needs: []int{rp.PSetFolderComment}, Build: func(k int, e *c05Env) (uint16, []rp.Field) {
		return rp.TSetFileInfo, []rp.Field{dname(k), rp.FS(rp.FFileComment, "a comment")}
	}},
	{Name: "move-file", Needs: []int{rp.PMoveFile}, Build: func(k int, e *c05Env) (uint16, []rp.Field) {
		return rp.TMoveFile, []rp.Field{fname(k), rp.F(rp.FFileNewPath, rp.FilePath("target"))}
	}},
	{Name: "move-folder", Needs: []int{rp.PMoveFolder}, Build: func(k int, e *c05Env) (uint16, []rp.Field) {
		return rp.TMoveFile, []rp.Field{dname(k), rp.F(rp.FFileNewPath, rp.FilePath("target"))}
	}},
	{Name: "create-folder", Needs: []int{rp.PCreateFolder}, Build: func(k int, e *c05Env) (uint16, []rp.Field) {
		return rp.TNewFolder, []rp.Field{rp.FS(rp.FFileName, fmt.Sprintf("newdir%02d", k))}
	}},
	{Name: "make-alias", Needs: []int{rp.PMakeAlias}, Build: func(k int, e *c05Env) (uint16, []rp.Field) {
		return rp.TMakeFileAlias, []rp.Field{fname(k), rp.F(rp.FFileNewPath, rp.FilePath("target"))}
	}},
	{Name: "download-file", Needs: []int{rp.PDownloadFile}, Build: func(k int, e *c05Env) (uint16, []rp.Field) { return rp.TDownloadFile, []rp.Field{fname(k)} }},
	{Name: "download-folder", Needs: []int{rp.PDownloadFolder}, Build: func(k int, e *c05Env) (uint16, []rp.Field) { return rp.TDownloadFldr, []rp.Field{dname(k)} }},
	{Name: "upload-file-to-uploads", Needs: []int{rp.PUploadFile}, Build: func(k int, e *c05Env) (uint16, []rp.Field) {
		return rp.TUploadFile, []rp.Field{rp.FS(rp.FFileName, fmt.Sprintf("up%02d.bin", k)), rp.F(rp.FFilePath, rp.FilePath("Uploads")), rp.F32(rp.FTransferSize, 10)}
	}},
	{Name: "upload-file-anywhere", Needs: []int{rp.PUploadFile, rp.PUploadAnywhere}, Build: func(k int, e *c05Env) (uint16, []rp.Field) {
		return rp.TUploadFile, []rp.Field{rp.FS(rp.FFileName, fmt.Sprintf("up%02d.bin", k)), rp.F(rp.FFilePath, rp.FilePath("target")), rp.F32(rp.FTransferSize, 10)}
	}},
	{Name: "upload-folder-to-dropbox", Needs: []int{rp.PUploadFolder}, Build: func(k int, e *c05Env) (uint16, []rp.Field) {
		return rp.TUploadFldr, []rp.Field{rp.FS(rp.FFileName, fmt.Sprintf("upf%02d", k)), rp.F(rp.FFilePath, rp.FilePath("Drop Box")), rp.F32(rp.FTransferSize, 10), rp.F16(rp.FFolderItemCount, 1)}
	}},
	{Name: "upload-folder-anywhere", Needs: []int{rp.PUploadFolder, rp.PUploadAnywhere}, Build: func(k int, e *c05Env) (uint16, []rp.Field) {
		return rp.TUploadFldr, []rp.Field{rp.FS(rp.FFileName, fmt.Sprintf("upf%02d", k)), rp.F(rp.FFilePath, rp.FilePath("target")), rp.F32(rp.FTransferSize, 10), rp.F16(rp.FFolderItemCount, 1)}
	}},
	{Name: "view-drop-box", Needs: []int{rp.PViewDropBoxes}, Build: func(k int, e *c05Env) (uint16, []rp.Field) {
		return rp.TGetFileNameList, []rp.Field{rp.F(rp.FFilePath, rp.FilePath("Drop Box"))}
	}},
	// the same folders under other spellings: the privilege follows the folder a path resolves to, not its last item
	{Name: "view-drop-box-spelled-with-dot", Needs: []int{rp.PViewDropBoxes}, Build: func(k int, e *c05Env) (uint16, []rp.Field) {
		return rp.TGetFileNameList, []rp.Field{rp.F(rp.FFilePath, rp.FilePath("Drop Box", "."))}
	}},
	{Name: "view-drop-box-spelled-with-dotdot", Needs: []int{rp.PViewDropBoxes}, Build: func(k int, e *c05Env) (uint16, []rp.Field) {
		return rp.TGetFileNameList, []rp.Field{rp.F(rp.FFilePath, rp.FilePath("target", "..", "Drop Box", ""))}
	}},
	{Name: "upload-file-anywhere-spelled-uploads-dotdot", Needs: []int{rp.PUploadFile, rp.PUploadAnywhere}, Build: func(k int, e *c05Env) (uint16, []rp.Field) {
		return rp.TUploadFile, []rp.Field{rp.FS(rp.FFileName, fmt.Sprintf("upd%02d.bin", k)), rp.F(rp.FFilePath, rp.FilePath("Uploads", "..")), rp.F32(rp.FTransferSize, 10)}
	}},
	{Name: "upload-folder-anywhere-spelled-dropbox-dotdot-target", Needs: []int{rp.PUploadFolder, rp.PUploadAnywhere}, Build: func(k int, e *c05Env) (uint16, []rp.Field) {
		return rp.TUploadFldr, []rp.Field{rp.FS(rp.FFileName, fmt.Sprintf("updf%02d", k)), rp.F(rp.FFilePath, rp.FilePath("Drop Box", "..", "target")), rp.F32(rp.FTransferSize, 10), rp.F16(rp.FFolderItemCount, 1)}
	}},
	{Name: "read-board", Needs: []int{rp.PNewsReadArt}, Build: func(k int, e *c05Env) (uint16, []rp.Field) { return rp.TGetMsgs, nil }},
	{Name: "post-board", Needs: []int{rp.PNewsPostArt}, Build: func(k int, e *c05Env) (uint16, []rp.Field) {
		return rp.TOldPostNews, []rp.Field{rp.FS(rp.FData, fmt.Sprintf("board post %d", k))}
	}},
	{Name: "list-news-categories", Needs: []int{rp.PNewsReadArt}, Build: func(k int, e *c05Env) (uint16, []rp.Field) { return rp.TGetNewsCatNameList, nil }},
	{Name: "list-news-articles", Needs: []int{rp.PNewsReadArt}, Build: func(k int, e *c05Env) (uint16, []rp.Field) {
		return rp.TGetNewsArtNameList, []rp.Field{rp.F(rp.FNewsPath, rp.NewsPath("cat00"))}
	}},
	{Name: "read-news-article", Needs: []int{rp.PNewsReadArt}, Build: func(k int, e *c05Env) (uint16, []rp.Field) {
		return rp.TGetNewsArtData, []rp.Field{rp.F(rp.FNewsPath, rp.NewsPath("cat00")), rp.F32(rp.FNewsArtID, 1), rp.FS(rp.FNewsArtDataFlav, "text/plain")}
	}},
	{Name: "post-news-article", Needs: []int{rp.PNewsPostArt}, Build: func(k int, e *c05Env) (uint16, []rp.Field) {
		return rp.TPostNewsArt, []rp.Field{rp.F(rp.FNewsPath, rp.NewsPath("cat00")), rp.F32(rp.FNewsArtID, 0), rp.FS(rp.FNewsArtTitle, fmt.Sprintf("t%d", k)), rp.F32(rp.FNewsArtFlags, 0), rp.FS(rp.FNewsArtDataFlav, "text/plain"), rp.FS(rp.FNewsArtData, "body")}
	}},
	{Name: "delete-news-article", Needs: []int{rp.PNewsDeleteArt}, Build: func(k int, e *c05Env) (uint16, []rp.Field) {
		return rp.TDelNewsArt, []rp.Field{rp.F(rp.FNewsPath, rp.NewsPath("cat00")), rp.F32(rp.FNewsArtID, uint32(2+k)), rp.F16(rp.FNewsArtRecurseDel, 0)}
	}},
	{Name: "create-news-category", Needs: []int{rp.PNewsCreateCat}, Build: func(k int, e *c05Env) (uint16, []rp.Field) {
		return rp.TNewNewsCat, []rp.Field{rp.FS(rp.FNewsCatName, fmt.Sprintf("newcat%02d", k))}
	}},
	{Name: "create-news-bundle", Needs: []int{rp.PNewsCreateFldr}, Build: func(k int, e *c05Env) (uint16, []rp.Field) {
		return rp.TNewNewsFldr, []rp.Field{rp.FS(rp.FFileName, fmt.Sprintf("newbundle%02d", k))}
	}},
	{Name: "delete-news-category", Needs: []int{rp.PNewsDeleteCat}, Build: func(k int, e *c05Env) (uint16, []rp.Field) {
		return rp.TDelNewsItem, []rp.Field{rp.F(rp.FNewsPath, rp.NewsPath(fmt.Sprintf("delcat%02d", k)))}
	}},
	{Name: "delete-news-bundle", Needs: []int{rp.PNewsDeleteFldr}, Build: func(k int, e *c05Env) (uint16, []rp.Field) {
		return rp.TDelNewsItem, []rp.Field{rp.F(rp.FNewsPath, rp.NewsPath(fmt.Sprintf("delbundle%02d", k)))}
	}},
	{Name: "create-account", Needs: []int{rp.PCreateUser}, Build: func(k int, e *c05Env) (uint16, []rp.Field) {
		return rp.TNewUser, []rp.Field{rp.F(rp.FUserLogin, rp.Obfuscate([]byte(fmt.Sprintf("created%02d", k)))), rp.FS(rp.FUserName, "n"), rp.F(rp.FUserAccess, make([]byte, 8))}
	}},
	{Name: "create-account-batch", Needs: []int{rp.PCreateUser}, Build: func(k int, e *c05Env) (uint16, []rp.Field) {
		sub := []rp.Field{rp.F(rp.FUserLogin, rp.Obfuscate([]byte(fmt.Sprintf("bcreated%02d", k)))), rp.FS(rp.FUserName, "n"), rp.F(rp.FUserAccess, make([]byte, 8)), rp.F(rp.FUserPassword, nil)}
		return rp.TUpdateUser, []rp.Field{rp.F(rp.FData, subFields(sub))}
	}},
	{Name: "delete-account", Needs: []int{rp.PDeleteUser}, Build: func(k int, e *c05Env) (uint16, []rp.Field) {
		return rp.TDeleteUser, []rp.Field{rp.F(rp.FUserLogin, rp.Obfuscate([]byte(fmt.Sprintf("victim%02d", k))))}
	}},
	{Name: "delete-account-batch", Needs: []int{rp.PDeleteUser}, Build: func(k int, e *c05Env) (uint16, []rp.Field) {
		sub := []rp.Field{rp.F(rp.FData, rp.Obfuscate([]byte(fmt.Sprintf("bvictim%02d", k))))}
		return rp.TUpdateUser, []rp.Field{rp.F(rp.FData, subFields(sub))}
	}},
	{Name: "read-account", Needs: []int{rp.POpenUser}, Build: func(k int, e *c05Env) (uint16, []rp.Field) {
		return rp.TGetUser, []rp.Field{rp.FS(rp.FUserLogin, "other")}
	}},
	{Name: "list-accounts", Needs: []int{rp.POpenUser}, Build: func(k int, e *c05Env) (uint16, []rp.Field) { return rp.TListUsers, nil }},
	{Name: "modify-account", Needs: []int{rp.PModifyUser}, Build: func(k int, e *c05Env) (uint16, []rp.Field) {
		return rp.TSetUser, []rp.Field{rp.F(rp.FUserLogin, rp.Obfuscate([]byte("other"))), rp.FS(rp.FUserName, fmt.Sprintf("Other %d", k)), rp.F(rp.FUserAccess, make([]byte, 8)), rp.F(rp.FUserPassword, []byte{0})}
	}},
	{Name: "modify-account-batch", Needs: []int{rp.PModifyUser}, Build: func(k int, e *c05Env) (uint16, []rp.Field) {
		sub := []rp.Field{rp.F(rp.FUserLogin, rp.Obfuscate([]byte("other2"))), rp.FS(rp.FUserName, fmt.Sprintf("Other2 %d", k)), rp.F(rp.FUserAccess, make([]byte, 8)), rp.F(rp.FUserPassword, []byte{0})}
		return rp.TUpdateUser, []rp.Field{rp.F(rp.FData, subFields(sub))}
	}},
	{Name: "send-chat", Needs: []int{rp.PSendChat}, Silent: true, Build: func(k int, e *c05Env) (uint16, []rp.Field) {
		return rp.TChatSend, []rp.Field{rp.FS(rp.FData, fmt.Sprintf("probe chat %d", k))}
	}},
	{Name: "send-private-chat-line", Needs: []int{rp.PSendChat}, Silent: true, Build: func(k int, e *c05Env) (uint16, []rp.Field) {
		return rp.TChatSend, []rp.Field{rp.FS(rp.FData, fmt.Sprintf("probe private chat %d", k)), rp.F(rp.FChatID, e.ChatID)}
	}},
	{Name: "send-emote", Needs: []int{rp.PSendChat}, Silent: true, Build: func(k int, e *c05Env) (uint16, []rp.Field) {
		return rp.TChatSend, []rp.Field{rp.FS(rp.FData, fmt.Sprintf("probe emote %d", k)), rp.F16(rp.FChatOptions, 1)}
	}},
	{Name: "open-private-chat", Needs: []int{rp.POpenChat}, Build: func(k int, e *c05Env) (uint16, []rp.Field) {
		return rp.TInviteNewChat, []rp.Field{rp.F16(rp.FUserID, e.BystanderID)}
	}},
	{Name: "invite-to-chat", Needs: []int{rp.POpenChat}, Build: func(k int, e *c05Env) (uint16, []rp.Field) {
		return rp.TInviteToChat, []rp.Field{rp.F16(rp.FUserID, e.BystanderID), rp.F(rp.FChatID, e.ChatID)}
	}},
	{Name: "send-private-message", Needs: []int{rp.PSendPrivMsg}, Build: func(k int, e *c05Env) (uint16, []rp.Field) {
		return rp.TSendInstantMsg, []rp.Field{rp.F16(rp.FUserID, e.BystanderID), rp.F16(rp.FOptions, 1), rp.FS(rp.FData, fmt.Sprintf("probe pm %d", k))}
	}},
	{Name: "broadcast", Needs: []int{rp.PBroadcast}, Build: func(k int, e *c05Env) (uint16, []rp.Field) {
		return rp.TUserBroadcast, []rp.Field{rp.FS(rp.FData, fmt.Sprintf("probe broadcast %d", k))}
	}},
	{Name: "get-client-info", Needs: []int{rp.PGetClientInfo}, Build: func(k int, e *c05Env) (uint16, []rp.Field) {
		return rp.TGetClientInfoText, []rp.Field{rp.F16(rp.FUserID, e.BystanderID)}
	}},
	{Name: "disconnect-user", Needs: []int{rp.PDisconUser}, Build: func(k int, e *c05Env) (uint16, []rp.Field) {
		return rp.TDisconnectUser, []rp.Field{rp.F16(rp.FUserID, e.VictimID)}
	}},
}

const c05Instances = 3 // fresh targets per probe kind

func genC05(rng *rand.Rand, c *Case) {
	c.Cfg["policy"] = 3
	c.Cfg["sidecar"] = rng.Intn(2)
	// requester bitmap
	var a rp.Access
	probe := rng.Intn(len(privProbes))
	gov := privProbes[probe].Needs[rng.Intn(len(privProbes[probe].Needs))]
	switch rng.Intn(6) {
	case 0: // uniform random over all 64 bits
		for i := 0; i < 64; i++ {
			if rng.Intn(2) == 0 {
				a.Set(i)
			}
		}
	case 1: // everything except one governing bit
		for i := 0; i < 64; i++ {
			a.Set(i)
		}
		a.Clear(gov)
	case 2: // nothing but one governing bit
		a.Set(gov)
	case 3: // the governing bit's neighbours (wrong-bit checks): i-1, i+1, byte-mirrored position
		for _, j := range []int{gov - 1, gov + 1, gov/8*8 + 7 - gov%8} {
			if j >= 0 && j < 64 && j != gov {
				a.Set(j)
			}
		}
	case 4: // all defined bits
		a = rp.AllAccess()
	case 5: // nothing
	}
	for i := 0; i < 8; i++ {
		c.Cfg[fmt.Sprintf("acc%d", i)] = int(a[i])
	}
	// probe order: all probes, shuffled, some repeated
	order := rng.Perm(len(privProbes))
	for _, p := range order {
		c.Ops = append(c.Ops, Op{K: "probe", N: []int{p, 0}})
	}
	usedInst := map[[2]int]bool{}
	for i := 0; i < 10; i++ {
		pk := [2]int{rng.Intn(len(privProbes)), 1 + rng.Intn(c05Instances-1)}
		if !usedInst[pk] {
			usedInst[pk] = true
			c.Ops = append(c.Ops, Op{K: "probe", N: []int{pk[0], pk[1]}})
		}
	}
	c.Ops = append(c.Ops, Op{K: "anyname"})
}

func c05Populate(w *World) {
	root := w.FileRoot
	for _, d := range []string{"target", "Uploads", "Drop Box"} {
		must(os.MkdirAll(filepath.Join(root, d), 0755))
	}
	total := len(privProbes) * c05Instances
	for pi, p := range privProbes {
		for j := 0; j < c05Instances; j++ {
			k := pi*c05Instances + j
			if strings.Contains(p.Name, "file") || p.Name == "make-alias" {
				must(os.WriteFile(filepath.Join(root, fmt.Sprintf("file%03d.txt", k)), []byte("content"), 0644))
			}
			if strings.Contains(p.Name, "dangling") {
				// an alias whose original is gone (every second one: an alias that points to itself)
				to := filepath.Join(root, fmt.Sprintf("gone%03d.txt", k))
				if j%2 == 1 {
					to = filepath.Join(root, fmt.Sprintf("dangling%03d", k))
				}
				must(os.Symlink(to, filepath.Join(root, fmt.Sprintf("dangling%03d", k))))
			}
			if strings.Contains(p.Name, "folder") {
				must(os.MkdirAll(filepath.Join(root, fmt.Sprintf("dir%03d", k)), 0755))
				must(os.WriteFile(filepath.Join(root, fmt.Sprintf("dir%03d", k), "inner.txt"), []byte("x"), 0644))
			}
			if w.Case.Cfg["sidecar"] == 1 && j%2 == 1 {
				// a stale information sidecar whose type disagrees with the kind of the entry it sits next to (what a
				// commented folder that was renamed leaves behind for a later file of the same name, and vice versa)
				fn, dn := fmt.Sprintf("file%03d.txt", k), fmt.Sprintf("dir%03d", k)
				if _, err := os.Stat(filepath.Join(root, fn)); err == nil {
					must(os.WriteFile(filepath.Join(root, ".info_"+fn), rp.InfoFork{Platform: "AMAC", Type: "fldr", Creator: "n/a ", Name: []byte(fn), Comment: []byte("stale")}.Encode(), 0644))
				}
				if _, err := os.Stat(filepath.Join(root, dn)); err == nil {
					must(os.WriteFile(filepath.Join(root, ".info_"+dn), rp.InfoFork{Platform: "AMAC", Type: "TEXT", Creator: "ttxt", Name: []byte(dn), Comment: []byte("stale")}.Encode(), 0644))
				}
				w.Probe("targets_with_stale_sidecar")
			}
			if p.Name == "delete-account" {
				w.AddAccount(fmt.Sprintf("victim%02d", k), "V", "", rp.Access{})
			}
			if p.Name == "delete-account-batch" {
				w.AddAccount(fmt.Sprintf("bvictim%02d", k), "V", "", rp.Access{})
			}
		}
	}
	w.AddAccount("other", "Other", "", rp.Access{})
	w.AddAccount("victimacct", "Victim", "", rp.AccessOf(rp.PAnyName))
	w.AddAccount("other2", "Other2", "", rp.Access{})
	// threaded news: a category with articles, categories and bundles to delete
	var sb strings.Builder
	sb.WriteString("Categories:\n")
	cat := func(name string, typ int, arts int) {
		fmt.Fprintf(&sb, "    %s:\n        Type: [0, %d]\n        Name: %s\n        Articles:", name, typ, name)
		if arts == 0 {
			sb.WriteString(" {}\n")
		} else {
			sb.WriteString("\n")
			for i := 1; i <= arts; i++ {
				fmt.Fprintf(&sb, "            %d:\n                Title: t%d\n                Poster: p\n                Date: [0, 0, 0, 0, 0, 0, 0, 0]\n                PrevArt: [0, 0, 0, 0]\n                NextArt: [0, 0, 0, 0]\n                ParentArt: [0, 0, 0, 0]\n                FirstChildArtArt: [0, 0, 0, 0]\n                Data: body%d\n", i, i, i)
			}
		}
		sb.WriteString("        SubCats: {}\n")
	}
	cat("cat00", 3, 2+total)
	for k := 0; k < total; k++ {
		cat(fmt.Sprintf("delcat%02d", k), 3, 0)
		cat(fmt.Sprintf("delbundle%02d", k), 2, 0)
	}
	w.WriteFile("ThreadedNews.yaml", sb.String())
	w.WriteFile("MessageBoard.txt", "board text")
}

func runC05(w *World) {
	cfg := w.Case.Cfg
	var acc rp.Access
	for i := 0; i < 8; i++ {
		acc[i] = byte(cfg[fmt.Sprintf("acc%d", i)])
	}
	c05Populate(w)
	w.WriteFile("Users/requester.yaml", rp.AccountYAMLLegacy("requester", "Requester Account", HashPw(""), acc))
	w.AddAccount("bystander", "Bystander", "", rp.AllAccess().With(rp.PCannotBeDiscon))
	si := w.StartServer()
	if si.StartErr != nil {
		w.Violate("c05-start", "server did not start: %v", si.StartErr)
		return
	}
	env := &c05Env{}
	by := w.NewClient("bystander", "10.1.0.2")
	rq := w.NewClient("requester-nick", "10.1.0.1")
	w.Sim.Go("flow", true, func() {
		if !by.Login("bystander", "", "", 0) || !by.Agree(by.Name, 1, 0, "") {
			w.Violate("c05-login", "bystander could not log in")
			return
		}
		env.BystanderID = by.MyUserID()
		// a private chat owned by the bystander, for invite-to-chat
		if rep, ok := by.Do(rp.TInviteNewChat, rp.F16(rp.FUserID, env.BystanderID)); ok {
			env.ChatID, _ = rep.Get(rp.FChatID)
		}
		if !rq.Login("requester", "", "", 0) || !rq.Agree(rq.Name, 2, 0, "") {
			w.Violate("c05-login", "requester could not log in with access %x", acc)
			return
		}
		vic := w.NewClient("victim-nick", "10.1.0.3")
		if !vic.Login("victimacct", "", "", 0) || !vic.Agree(vic.Name, 3, 0, "") {
			w.Violate("c05-login", "victim could not log in")
			return
		}
		env.VictimID = vic.MyUserID()
		victimGone := false
		Settle()
		for step, op := range w.Case.Ops {
			if op.K == "anyname" {
				// display-name privilege: without it the chosen name is simply not adopted
				rq.Request(rp.TSetClientUserInfo, rp.FS(rp.FUserName, "chosen-name"), rp.F16(rp.FUserIconID, 2))
				rq.Do(rp.TKeepAlive)
				SettleShort()
				us, _ := by.UserList()
				found := ""
				for _, u := range us {
					if u.ID != env.BystanderID && u.ID != env.VictimID {
						found = u.Name
					}
				}
				want := "Requester Account"
				if acc.Has(rp.PAnyName) {
					want = "chosen-name"
				}
				if found != want {
					sig := "c05-anyname-refused-with-privilege"
					if !acc.Has(rp.PAnyName) {
						sig = "c05-anyname-adopted-without-privilege"
					}
					w.Violate(sig, "requester (any-name privilege: %v) asked for the name \"chosen-name\"; the user list shows %q, want %q", acc.Has(rp.PAnyName), found, want)
					return
				}
				continue
			}
			p := privProbes[op.N[0]]
			allowed := true
			for _, b := range p.Needs {
				allowed = allowed && acc.Has(b)
			}
			if p.Any {
				allowed = false
				for _, b := range p.Needs {
					allowed = allowed || acc.Has(b)
				}
			}
			if p.Name == "disconnect-user" {
				if victimGone {
					continue
				}
				victimGone = allowed // a granted disconnect really removes the victim
			}
			typ, fields := p.Build(op.N[0]*c05Instances+op.N[1], env)
			before := SnapshotTree(w.Sandbox)
			byBefore := len(by.AllRecv)
			id := rq.Request(typ, fields...)
			rq.Do(rp.TKeepAlive) // fence: the request has been processed
			SettleShort()
			if p.Name == "disconnect-user" && allowed {
				Settle() // the victim is dropped one second later; let its user-left notice pass
			}
			reps := rq.Replies[id]
			if rq.Closed {
				w.Violate("c05-connection-lost-"+p.Name, "step %d: requester lost its connection on %s", step, p.Name)
				return
			}
			denied := len(reps) == 1 && reps[0].T.Err != 0
			w.Probe(fmt.Sprintf("probe_%s_allowed_%v", p.Name, allowed))
			if allowed && p.Any {
				continue // necessary, not sufficient: nothing to judge
			}
			if allowed {
				if denied {
					w.Violate("c05-refused-with-privilege-"+p.Name, "step %d: requester holds %v but %s was refused: %q (access %x)", step, p.Needs, p.Name, fieldStr(reps[0].T, rp.FError), acc)
					return
				}
				if len(reps) == 0 && !p.Silent {
					w.Violate("c05-unanswered-with-privilege-"+p.Name, "step %d: requester holds %v but %s got no reply", step, p.Needs, p.Name)
					return
				}
				continue
			}
			// not allowed: exactly one error reply, nothing changes, nobody else hears of it
			if p.Any && len(reps) == 0 {
				// the server drops requests about entries it cannot stat without an answer; that is no grant - what
				// counts is that nothing changed and nobody heard of it
				w.Probe("unanswered_request_about_unresolvable_entry")
			} else if len(reps) != 1 || !denied {
				w.Violate("c05-not-refused-"+p.Name, "step %d: requester lacks %v (access %x) but %s was answered with %d replies, error=%v", step, p.Needs, acc, p.Name, len(reps), denied)
				return
			}
			after := SnapshotTree(w.Sandbox)
			if d := DiffTrees(before, after); len(d) > 0 {
				w.Violate("c05-effect-without-privilege-"+p.Name, "step %d: %s was refused but state changed: %v", step, p.Name, d[:min(len(d), 5)])
				return
			}
			if len(by.AllRecv) != byBefore {
				t := by.AllRecv[byBefore].T
				w.Violate("c05-others-reached-without-privilege-"+p.Name, "step %d: %s was refused but the bystander received transaction type %d", step, p.Name, t.Type)
				return
			}
		}
	})
	w.Sim.Run()
	if rq.FrameErr != nil || by.FrameErr != nil {
		w.Violate("c05-malformed-stream", "%v %v", rq.FrameErr, by.FrameErr)
	}
}

func init() {
	Register(&Scenario{ID: "C05", Gen: genC05, Run: runC05})
}
