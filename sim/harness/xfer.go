package harness

import (
	"encoding/binary"
	"fmt"
	"math/rand"
	"time"

	rp "github.com/jhalter/mobius/verifsim/refproto"
	"github.com/jhalter/mobius/verifsim/simnet"
)

// GenData returns deterministic pseudo-random file content.
func GenData(seed int64, n int) []byte {
	r := rand.New(rand.NewSource(seed))
	b := make([]byte, n)
	r.Read(b)
	return b
}

// PathField builds field 202 for a list of path items (nil for the root).
func PathField(items []string) []rp.Field {
	if len(items) == 0 {
		return nil
	}
	return []rp.Field{rp.F(rp.FFilePath, rp.FilePath(items...))}
}

// UploadStream builds the client->server byte stream of a file upload.
func UploadStream(ref []byte, name string, data, rsrc []byte, withRsrc bool, comment string) []byte {
	info := rp.InfoFork{Platform: "AMAC", Type: "TEXT", Creator: "ttxt", PlatformFlags: 0x100, Name: []byte(name), Comment: []byte(comment)}
	ffo := rp.EncodeFFO(info, data, rsrc, withRsrc)
	return append(rp.XferPreamble(ref, uint32(len(ffo))), ffo...)
}

// UploadReq sends the upload request; returns reference number and (for resume) the offset the server reports.
func (c *Client) UploadReq(path []string, name string, size uint32, resume bool) (ref []byte, offset uint32, rep rp.Tran, ok bool) {
	f := append([]rp.Field{rp.FS(rp.FFileName, name)}, PathField(path)...)
	if resume {
		f = append(f, rp.F16(rp.FFileTransferOptions, 1))
	} else {
		f = append(f, rp.F32(rp.FTransferSize, size))
	}
	rep, ok = c.Do(rp.TUploadFile, f...)
	if !ok || rep.Err != 0 {
		return nil, 0, rep, false
	}
	ref, _ = rep.Get(rp.FRefNum)
	if len(ref) != 4 {
		return nil, 0, rep, false
	}
	if rd, has := rep.Get(rp.FFileResumeData); has {
		off, err := rp.DecodeResumeData(rd)
		if err != nil {
			c.W.Violate("malformed-resume-data", "upload reply: %v", err)
			return ref, 0, rep, false
		}
		offset = off
	}
	return ref, offset, rep, true
}

// SendStream writes stream on a new transfer connection.  cutAt >= 0: the connection is reset
// after exactly cutAt bytes were sent.  Otherwise waits for the server to close.
// chunk > 0 writes in pieces of that size (each Write is one TCP send).
func (c *Client) SendStream(stream []byte, cutAt int, chunk int) *simnet.Conn {
	return c.SendStreamCut(stream, cutAt, chunk, false)
}

// SendStreamCut is SendStream with a choice of how the connection dies at the cut: reset, or a graceful
// close (the server reads a clean EOF in the middle of the stream).
func (c *Client) SendStreamCut(stream []byte, cutAt int, chunk int, graceful bool) *simnet.Conn {
	x := c.DialXfer()
	if x == nil {
		return nil
	}
	if cutAt >= 0 && cutAt < len(stream) {
		stream = stream[:cutAt]
	} else {
		cutAt = -1
	}
	for len(stream) > 0 {
		k := len(stream)
		if chunk > 0 && chunk < k {
			k = chunk
		}
		if _, err := x.Write(stream[:k]); err != nil {
			break
		}
		stream = stream[k:]
	}
	if cutAt >= 0 {
		// let the server consume what was sent, then kill the connection
		c.waitDrained(x)
		if graceful {
			_ = x.Close()
		} else {
			x.Reset()
		}
		return x
	}
	c.waitClose(x, 20*time.Second)
	_ = x.Close()
	return x
}

// SendStreamAbandon writes the first cutAt bytes of stream on a new transfer connection, waits until the server has
// consumed them and then walks away: no FIN or RST reaches the server until somebody resets the returned connection.
func (c *Client) SendStreamAbandon(stream []byte, cutAt int) *simnet.Conn {
	x := c.DialXfer()
	if x == nil {
		return nil
	}
	if _, err := x.Write(stream[:max(0, min(cutAt, len(stream)))]); err == nil {
		c.waitDrained(x)
	}
	c.Abandoned = append(c.Abandoned, x)
	return x
}

// waitDrained waits (simulated time) until the peer has read everything in flight.
func (c *Client) waitDrained(x *simnet.Conn) {
	for i := 0; i < 100 && x.Peer().Pending() > 0; i++ {
		SettleShort()
	}
	SettleShort()
}

func (c *Client) waitClose(x *simnet.Conn, d time.Duration) {
	_ = x.SetReadDeadline(time.Now().Add(d))
	buf := make([]byte, 4096)
	for {
		if _, err := x.Read(buf); err != nil {
			return
		}
	}
}

// ReadAllXfer reads from x until EOF/reset or until no byte arrived for idle simulated time.
func ReadAllXfer(x *simnet.Conn, idle time.Duration) ([]byte, error) {
	var out []byte
	buf := make([]byte, 65536)
	for {
		_ = x.SetReadDeadline(time.Now().Add(idle))
		n, err := x.Read(buf)
		out = append(out, buf[:n]...)
		if err != nil {
			return out, err
		}
	}
}

// DownloadResult is what a reference download client observed.
type DownloadResult struct {
	Reply    rp.Tran
	OK       bool
	XferSize uint32
	FileSize uint32
	Stream   []byte
	Err      error
}

// Download requests a file and reads the whole transfer stream.
// resumeAt < 0: no resume record.  preview: send transfer options = 2.
func (c *Client) Download(path []string, name string, resumeAt int64, preview bool) DownloadResult {
	if preview {
		return c.DownloadOpt(path, name, resumeAt, []byte{0, 2})
	}
	return c.DownloadOpt(path, name, resumeAt, nil)
}

// DownloadOpt is Download with the bytes of the transfer-options field given (nil: no such field; empty but not nil:
// the field with a size of 0).
func (c *Client) DownloadOpt(path []string, name string, resumeAt int64, opts []byte) DownloadResult {
	var res DownloadResult
	f := append([]rp.Field{rp.FS(rp.FFileName, name)}, PathField(path)...)
	if resumeAt >= 0 {
		f = append(f, rp.F(rp.FFileResumeData, rp.ResumeData(uint32(resumeAt), 0, false)))
	}
	if opts != nil {
		f = append(f, rp.F(rp.FFileTransferOptions, opts))
	}
	rep, ok := c.Do(rp.TDownloadFile, f...)
	res.Reply = rep
	if !ok || rep.Err != 0 {
		return res
	}
	ref, _ := rep.Get(rp.FRefNum)
	xs, ok1 := rep.Get(rp.FTransferSize)
	fs, ok2 := rep.Get(rp.FFileSize)
	if len(ref) != 4 || !ok1 || !ok2 || len(xs) != 4 || len(fs) != 4 {
		c.W.Violate("download-reply-fields", "download reply lacks 107/108/207 of the right width: %v", fieldSummary(rep))
		return res
	}
	res.XferSize = binary.BigEndian.Uint32(xs)
	res.FileSize = binary.BigEndian.Uint32(fs)
	x := c.DialXfer()
	if x == nil {
		return res
	}
	if _, err := x.Write(rp.XferPreamble(ref, 0)); err != nil {
		res.Err = err
		return res
	}
	res.Stream, res.Err = ReadAllXfer(x, 30*time.Second)
	_ = x.Close()
	res.OK = true
	return res
}

func fieldSummary(t rp.Tran) string {
	s := ""
	for _, f := range t.Fields {
		s += fmt.Sprintf("%d(%d) ", f.ID, len(f.Data))
	}
	return s
}
