// Package simrt is the deterministic token scheduler of the mobius simulator
// (DESIGN.md §2.2).  All simulated threads are real goroutines inside one
// testing/synctest bubble, at most one of them executes user code at a time and
// which one is decided by a PRNG seeded from the run seed.
package simrt

import (
	"fmt"
	"hash/fnv"
	"math/rand"
	"runtime"
	"runtime/metrics"
	"sort"
	"strconv"
	"strings"
	"sync"
	"sync/atomic"
	"syscall"
	"testing/synctest"
	"time"
)

type state int

const (
	stRunning state = iota // holds the token
	stReady                // parked on grant, may be chosen
	stBlocked              // parked on grant, waiting on a WaitQ
	stNative               // blocked in (or just returning from) a native op: chan, sleep
	stDone
)

// Thread is one simulated thread.
type Thread struct {
	ID        int
	Name      string
	Essential bool // the run is not over while an essential thread is alive
	st        state
	grant     chan struct{}
	spawnAck  chan struct{}
	waitq     *WaitQ
	timedOut  bool
	timer     *time.Timer
	Panicked  any
	PanicStk  string
	VC        VC
	locks     int // number of sim mutexes currently held (leak detection)
	LastKind  string
	Note      string
	prio      int
}

// WaitQ is a queue of threads blocked on some simulated condition.
type WaitQ struct {
	ts []*Thread
}

// Event is an externally enabled action (e.g. a network delivery) the scheduler may pick.
type Event interface {
	EventID() int    // stable id, distinct from thread ids (use >= EventBase)
	Enabled() bool   // may fire now
	Fire(*rand.Rand) // executed by the scheduler goroutine while no thread runs
}

const EventBase = 1 << 20

// Policy selects how the next thread/event is picked.
type Policy int

const (
	PolRandom Policy = iota
	PolSticky        // keep running the same thread with probability 3/4
	PolPCT           // random priorities with a few priority change points
	PolFIFO          // lowest id first (deterministic baseline)
)

// Config of one simulated run.
type Config struct {
	Seed      int64
	Policy    Policy
	MaxSteps  int           // hard cap on scheduling steps
	MaxTime   time.Duration // hard cap on simulated time
	Grace     time.Duration // simulated time to keep running after the last essential thread ended
	TraceFull bool          // keep the full choice trace (for replay files / debugging)
	PCTDepth  int
	// FIFOSubstr: among ready threads whose name contains this substring only the one created first may run
	// (a restriction of the schedule space used as a known-finding mask, DESIGN 5.3).
	FIFOSubstr string
	HB         bool
	TrackAlloc bool
	FnYield    bool // function entries of instrumented code are scheduling points
	// Stalls: this many times per run the thread that has just taken a step is not scheduled again for StallLen
	// steps (unless nothing else can run) - a goroutine the operating system or the collector keeps off the CPU
	// while the rest of the system goes on.  Opens check-then-act windows that are only a few steps wide.
	Stalls   int
	StallLen int
}

// Sim is the state of one run.
type Sim struct {
	stallAt     map[uint64]bool
	stalled     *Thread
	stallUntil  uint64
	StallsFired int
	mu          sync.Mutex
	cfg         Config
	Rng         *rand.Rand // scheduler decisions
	threads     []*Thread
	byGID       map[uint64]*Thread
	running     *Thread
	nextID      int
	pending     *Thread // child being spawned (PreGo..GoStart)
	events      []Event
	wake        chan struct{}
	Step        uint64
	killed      bool
	start       time.Time
	hash        uint64
	Trace       []int32
	Deaths      []*Thread // threads that died from an escaped panic ("process death")
	EndCause    string
	// statistics
	MaxReady       int
	MultiReady     uint64 // steps at which >= 2 choices were enabled
	EventsFired    uint64
	pctChange      map[uint64]bool
	last           *Thread
	onStep         func()
	YieldCounts    map[string]uint64
	doneAt         time.Time
	allDone        bool
	LeakedLocks    []string
	maps           map[uintptr]*mapState
	MapRaces       []MapRace
	MaxStepWall    time.Duration // most CPU time the process consumed during a single scheduling step
	MaxStepName    string
	stepStartReal  time.Duration
	stepStartAlloc uint64
	MaxStepAlloc   uint64 // most bytes allocated during a single scheduling step (TrackAlloc)
	MaxAllocName   string
	TrackAlloc     bool
	allocSample    []metrics.Sample
	stepThread     *Thread
	HB             bool // happens-before tracking for the map monitor (costly; enabled per scenario)
	chanHB         SyncObj
}

var (
	curMu sync.Mutex
	cur   *Sim
)

// Cur returns the active simulation or nil.
// fnYieldOn is read without a lock by FnYield (set before a simulation starts, cleared when it ends; the token
// discipline orders every reader after the writer).
var fnYieldOn atomic.Bool

// FnYield is inserted by simify at the entry of every function of the instrumented packages.
func FnYield() {
	if fnYieldOn.Load() {
		Yield("fn")
	}
}

func Cur() *Sim {
	curMu.Lock()
	defer curMu.Unlock()
	return cur
}

func setCur(s *Sim) {
	curMu.Lock()
	cur = s
	curMu.Unlock()
	fnYieldOn.Store(s != nil && s.cfg.FnYield)
}

// allocBytes returns the cumulative number of heap bytes allocated by the process (cheap, no stop-the-world).
func (s *Sim) allocBytes() uint64 {
	if s.allocSample == nil {
		s.allocSample = []metrics.Sample{{Name: "/gc/heap/allocs:bytes"}}
	}
	metrics.Read(s.allocSample)
	return s.allocSample[0].Value.Uint64()
}

// realNow returns the CPU time (user+system) this process has consumed.  time.Now is the fake clock
// inside a synctest bubble, and wall-clock time would make step durations depend on machine load.
func realNow() time.Duration {
	var ru syscall.Rusage
	_ = syscall.Getrusage(syscall.RUSAGE_SELF, &ru)
	return time.Duration(ru.Utime.Sec+ru.Stime.Sec)*time.Second + time.Duration(ru.Utime.Usec+ru.Stime.Usec)*time.Microsecond
}

func goid() uint64 {
	var buf [64]byte
	n := runtime.Stack(buf[:], false)
	// "goroutine 123 ["
	b := buf[10:n]
	i := 0
	for i < len(b) && b[i] >= '0' && b[i] <= '9' {
		i++
	}
	id, _ := strconv.ParseUint(string(b[:i]), 10, 64)
	return id
}

// New creates a simulation; must be called inside a synctest bubble.
func New(cfg Config) *Sim {
	if cfg.MaxSteps == 0 {
		cfg.MaxSteps = 400000
	}
	if cfg.MaxTime == 0 {
		cfg.MaxTime = 6 * time.Hour
	}
	if cfg.Grace == 0 {
		cfg.Grace = 15 * time.Second
	}
	s := &Sim{
		cfg:         cfg,
		Rng:         rand.New(rand.NewSource(cfg.Seed)),
		byGID:       map[uint64]*Thread{},
		wake:        make(chan struct{}, 1),
		start:       time.Now(),
		hash:        14695981039346656037,
		YieldCounts: map[string]uint64{},
		HB:          cfg.HB,
		TrackAlloc:  cfg.TrackAlloc,
	}
	if cfg.Stalls > 0 {
		s.stallAt = map[uint64]bool{}
		for i := 0; i < cfg.Stalls; i++ {
			s.stallAt[uint64(s.Rng.Intn(6000))] = true
		}
	}
	if cfg.Policy == PolPCT {
		s.pctChange = map[uint64]bool{}
		d := cfg.PCTDepth
		if d == 0 {
			d = 3
		}
		for i := 0; i < d; i++ {
			s.pctChange[uint64(s.Rng.Intn(3000))] = true
		}
	}
	setCur(s)
	return s
}

// Now returns elapsed simulated time.
func (s *Sim) Now() time.Duration { return time.Since(s.start) }

// SetOnStep installs a function run by the scheduler after every step (invariants).
func (s *Sim) SetOnStep(f func()) { s.onStep = f }

// AddEvent registers an event source.
func (s *Sim) AddEvent(e Event) {
	s.mu.Lock()
	s.events = append(s.events, e)
	s.mu.Unlock()
}

// Self returns the calling simulated thread, or nil if the caller is not one
// (scheduler goroutine, setup code, timer callbacks).
func Self() *Thread {
	s := Cur()
	if s == nil {
		return nil
	}
	g := goid()
	s.mu.Lock()
	t := s.byGID[g]
	s.mu.Unlock()
	return t
}

func (s *Sim) self() *Thread {
	g := goid()
	s.mu.Lock()
	t := s.byGID[g]
	s.mu.Unlock()
	return t
}

// Go starts a simulated thread running f (harness API).
func (s *Sim) Go(name string, essential bool, f func()) *Thread {
	s.mu.Lock()
	t := &Thread{ID: s.nextID, Name: name, Essential: essential, st: stReady, grant: make(chan struct{}, 1), spawnAck: make(chan struct{}, 1)}
	s.nextID++
	s.threads = append(s.threads, t)
	parent := s.byGID[goid()]
	if parent != nil {
		t.VC = parent.forkVC()
	}
	s.mu.Unlock()
	ack := make(chan struct{})
	go func() {
		s.mu.Lock()
		s.byGID[goid()] = t
		s.mu.Unlock()
		close(ack)
		defer s.threadEnd(t)
		<-t.grant
		s.checkKilled()
		f()
	}()
	<-ack
	return t
}

func (s *Sim) checkKilled() {
	if s.killed {
		runtime.Goexit()
	}
}

// threadEnd is deferred in every simulated thread.
func (s *Sim) threadEnd(t *Thread) {
	if r := recover(); r != nil {
		t.Panicked = r
		buf := make([]byte, 8192)
		t.PanicStk = string(buf[:runtime.Stack(buf, false)])
	}
	s.mu.Lock()
	t.st = stDone
	if t.Panicked != nil && !s.killed {
		s.Deaths = append(s.Deaths, t)
	}
	if t.locks > 0 && !s.killed {
		s.LeakedLocks = append(s.LeakedLocks, t.Name)
	}
	if s.running == t {
		s.running = nil
	}
	delete(s.byGID, goid())
	s.mu.Unlock()
	s.kick()
}

func (s *Sim) kick() {
	select {
	case s.wake <- struct{}{}:
	default:
	}
}

// PreGo is inserted before every go statement of instrumented code.
func PreGo() {
	s := Cur()
	if s == nil {
		return
	}
	p := s.self()
	s.mu.Lock()
	t := &Thread{ID: s.nextID, st: stNative, grant: make(chan struct{}, 1), spawnAck: make(chan struct{}, 1)}
	s.nextID++
	if p != nil {
		t.Name = p.Name + "/go" + strconv.Itoa(t.ID)
		t.VC = p.forkVC()
	} else {
		t.Name = "go" + strconv.Itoa(t.ID)
	}
	s.threads = append(s.threads, t)
	s.pending = t
	s.mu.Unlock()
}

// PostGo is inserted after every go statement: the parent waits until the child registered.
func PostGo() {
	s := Cur()
	if s == nil {
		return
	}
	s.mu.Lock()
	t := s.pending
	s.mu.Unlock()
	if t == nil {
		return
	}
	<-t.spawnAck
	s.mu.Lock()
	s.pending = nil
	s.mu.Unlock()
}

// GoStart is deferred-called at the top of every instrumented goroutine body:
//
//	defer simrt.GoStart()()
func GoStart() func() {
	s := Cur()
	if s == nil {
		return func() {}
	}
	s.mu.Lock()
	t := s.pending
	if t == nil {
		// goroutine started by code that was not instrumented with PreGo: register ad hoc
		t = &Thread{ID: s.nextID, Name: "adhoc" + strconv.Itoa(s.nextID), grant: make(chan struct{}, 1), spawnAck: make(chan struct{}, 1)}
		s.nextID++
		s.threads = append(s.threads, t)
	}
	s.byGID[goid()] = t
	t.st = stReady
	s.mu.Unlock()
	t.spawnAck <- struct{}{}
	<-t.grant
	if s.killed {
		s.threadEnd(t)
		runtime.Goexit()
	}
	return func() {
		// recover must be called directly by the deferred function
		if r := recover(); r != nil {
			t.Panicked = r
			buf := make([]byte, 8192)
			t.PanicStk = string(buf[:runtime.Stack(buf, false)])
		}
		s.threadEnd(t)
	}
}

// Yield is a scheduling point: the caller gives up the token and waits to be chosen again.
func Yield(kind string) {
	s := Cur()
	if s == nil {
		return
	}
	t := s.self()
	if t == nil {
		return
	}
	s.mu.Lock()
	if s.killed {
		s.mu.Unlock()
		runtime.Goexit()
	}
	native := s.running != t
	t.st = stReady
	t.LastKind = kind
	s.YieldCounts[kind]++
	if !native {
		s.running = nil
	}
	s.mu.Unlock()
	if native {
		s.kick()
	}
	<-t.grant
	s.checkKilled()
}

// Park blocks the calling thread on q until another thread calls Wake on it.
func Park(q *WaitQ) {
	s := Cur()
	if s == nil {
		panic("simrt.Park outside simulation")
	}
	t := s.self()
	if t == nil {
		panic("simrt.Park: caller is not a simulated thread")
	}
	s.mu.Lock()
	if s.killed {
		s.mu.Unlock()
		runtime.Goexit()
	}
	t.st = stBlocked
	t.waitq = q
	q.ts = append(q.ts, t)
	if s.running == t {
		s.running = nil
	}
	s.mu.Unlock()
	<-t.grant
	s.checkKilled()
}

// ParkTimeout is Park with a simulated-time deadline; it reports false on timeout.
func ParkTimeout(q *WaitQ, d time.Duration) bool {
	s := Cur()
	t := s.self()
	if t == nil {
		panic("simrt.ParkTimeout: caller is not a simulated thread")
	}
	s.mu.Lock()
	if s.killed {
		s.mu.Unlock()
		runtime.Goexit()
	}
	t.st = stBlocked
	t.waitq = q
	t.timedOut = false
	q.ts = append(q.ts, t)
	if s.running == t {
		s.running = nil
	}
	t.timer = time.AfterFunc(d, func() {
		s.mu.Lock()
		if t.st == stBlocked && t.waitq == q {
			q.remove(t)
			t.waitq = nil
			t.timedOut = true
			t.st = stReady
		}
		s.mu.Unlock()
		s.kick()
	})
	s.mu.Unlock()
	<-t.grant
	t.timer.Stop()
	s.checkKilled()
	return !t.timedOut
}

func (q *WaitQ) remove(t *Thread) {
	for i, x := range q.ts {
		if x == t {
			q.ts = append(q.ts[:i], q.ts[i+1:]...)
			return
		}
	}
}

// Wake makes every thread parked on q ready.  May be called by threads, events or setup code.
func Wake(q *WaitQ) {
	s := Cur()
	if s == nil {
		return
	}
	s.mu.Lock()
	for _, t := range q.ts {
		if t.st == stBlocked {
			t.st = stReady
			t.waitq = nil
		}
	}
	q.ts = q.ts[:0]
	s.mu.Unlock()
}

// Waiters reports how many threads are parked on q.
func (q *WaitQ) Waiters() int { return len(q.ts) }

// Sleep replaces time.Sleep in instrumented code.
func Sleep(d time.Duration) {
	s := Cur()
	if s == nil {
		time.Sleep(d)
		return
	}
	t := s.self()
	if t == nil {
		time.Sleep(d)
		return
	}
	s.mu.Lock()
	if s.killed {
		s.mu.Unlock()
		runtime.Goexit()
	}
	t.st = stNative
	if s.running == t {
		s.running = nil
	}
	s.mu.Unlock()
	time.Sleep(d)
	Yield("sleep")
}

// SetNote attaches a diagnostic note to the calling thread (what it is waiting for).
func SetNote(n string) {
	if t := Self(); t != nil {
		t.Note = n
	}
}

// LockHeld adjusts the count of sim mutexes held by the calling thread.
func LockHeld(delta int) {
	if t := Self(); t != nil {
		t.locks += delta
	}
}

// Killed reports whether the run is being torn down.
func (s *Sim) Killed() bool { return s.killed }

// Threads returns a snapshot of all threads (scheduler side only).
func (s *Sim) Threads() []*Thread { return s.threads }

func (t *Thread) Done() bool { return t.st == stDone }
func (t *Thread) State() string {
	return [...]string{"running", "ready", "blocked", "native", "done"}[t.st]
}

// Run is the scheduler loop; call it from the bubble's main goroutine.
// It returns when all essential threads are done and the grace period elapsed,
// or when a cap was hit (EndCause says which).
func (s *Sim) Run() {
	for {
		synctest.Wait()
		if s.stepThread != nil {
			if d := realNow() - s.stepStartReal; d > s.MaxStepWall {
				s.MaxStepWall = d
				s.MaxStepName = s.stepThread.Name + " after " + s.stepThread.LastKind
			}
			if s.TrackAlloc {
				if d := s.allocBytes() - s.stepStartAlloc; d > s.MaxStepAlloc {
					s.MaxStepAlloc = d
					s.MaxAllocName = s.stepThread.Name + " after " + s.stepThread.LastKind
				}
			}
			s.stepThread = nil
		}
		s.mu.Lock()
		if s.running != nil {
			// the token holder blocked natively (channel op) without yielding
			s.running.st = stNative
			s.running = nil
		}
		if s.onStep != nil {
			s.mu.Unlock()
			s.onStep()
			s.mu.Lock()
		}
		if s.Step&255 == 255 {
			// forget finished threads (sender goroutines come and go by the thousand)
			live := s.threads[:0]
			for _, t := range s.threads {
				if t.st != stDone {
					live = append(live, t)
				}
			}
			for i := len(live); i < len(s.threads); i++ {
				s.threads[i] = nil
			}
			s.threads = live
		}
		// termination bookkeeping
		alive := false
		for _, t := range s.threads {
			if t.Essential && t.st != stDone {
				alive = true
				break
			}
		}
		if !alive && !s.allDone {
			s.allDone = true
			s.doneAt = time.Now()
		}
		if alive {
			s.allDone = false
		}
		if s.allDone && time.Since(s.doneAt) >= s.cfg.Grace {
			s.EndCause = "done"
			s.mu.Unlock()
			return
		}
		if int(s.Step) >= s.cfg.MaxSteps {
			s.EndCause = "stepcap"
			s.mu.Unlock()
			return
		}
		if s.Now() >= s.cfg.MaxTime {
			s.EndCause = "timecap"
			s.mu.Unlock()
			return
		}
		// collect choices
		type choice struct {
			id int
			t  *Thread
			e  Event
		}
		var cs []choice
		fifoLive := -1
		if s.cfg.FIFOSubstr != "" {
			for _, t := range s.threads {
				if t.st != stDone && strings.Contains(t.Name, s.cfg.FIFOSubstr) {
					fifoLive = t.ID
					break
				}
			}
		}
		for _, t := range s.threads {
			if t.st == stReady {
				if fifoLive >= 0 && t.ID != fifoLive && strings.Contains(t.Name, s.cfg.FIFOSubstr) {
					continue
				}
				cs = append(cs, choice{id: t.ID, t: t})
			}
		}
		for _, e := range s.events {
			if e.Enabled() {
				cs = append(cs, choice{id: e.EventID(), e: e})
			}
		}
		if len(cs) == 0 {
			s.mu.Unlock()
			// idle: let simulated time advance until something becomes ready
			wait := time.Hour
			if s.allDone {
				wait = s.cfg.Grace - time.Since(s.doneAt)
				if wait <= 0 {
					wait = time.Millisecond
				}
			}
			if rem := s.cfg.MaxTime - s.Now(); rem < wait {
				wait = rem + time.Millisecond
			}
			tm := time.NewTimer(wait)
			select {
			case <-s.wake:
			case <-tm.C:
			}
			tm.Stop()
			continue
		}
		if s.stalled != nil && s.Step < s.stallUntil && len(cs) > 1 {
			kept := cs[:0:0]
			for _, c := range cs {
				if c.t != s.stalled {
					kept = append(kept, c)
				}
			}
			if len(kept) > 0 {
				cs = kept
			}
		}
		sort.Slice(cs, func(i, j int) bool { return cs[i].id < cs[j].id })
		if len(cs) > s.MaxReady {
			s.MaxReady = len(cs)
		}
		if len(cs) > 1 {
			s.MultiReady++
		}
		idx := 0
		switch s.cfg.Policy {
		case PolRandom:
			idx = s.Rng.Intn(len(cs))
		case PolSticky:
			idx = -1
			if s.last != nil && s.Rng.Intn(4) != 0 {
				for i, c := range cs {
					if c.t == s.last {
						idx = i
					}
				}
			}
			if idx < 0 {
				idx = s.Rng.Intn(len(cs))
			}
		case PolPCT:
			// threads get a random priority on first sight; highest runs; at change points the
			// running thread's priority drops to the minimum
			best := -1
			for i, c := range cs {
				if c.t != nil && c.t.prio == 0 {
					c.t.prio = 1000 + s.Rng.Intn(1000000)
				}
				p := 500 + s.Rng.Intn(1000000) // events: fresh random priority
				if c.t != nil {
					p = c.t.prio
				}
				if best < 0 || p > best {
					best, idx = p, i
				}
			}
			if s.pctChange[s.Step] && cs[idx].t != nil {
				cs[idx].t.prio = 1 + s.Rng.Intn(400)
			}
		case PolFIFO:
			idx = 0
		}
		c := cs[idx]
		if s.stallAt != nil && s.stallAt[s.Step] && c.t != nil {
			n := s.cfg.StallLen
			if n == 0 {
				n = 400
			}
			s.stalled, s.stallUntil = c.t, s.Step+1+uint64(n)
			s.StallsFired++
		}
		s.Step++
		s.hash = (s.hash ^ uint64(uint32(c.id))) * 1099511628211
		s.hash = (s.hash ^ uint64(len(cs))) * 1099511628211
		if s.cfg.TraceFull {
			s.Trace = append(s.Trace, int32(c.id))
		}
		if c.t != nil {
			c.t.st = stRunning
			s.running = c.t
			s.last = c.t
			s.stepThread = c.t
			s.stepStartReal = realNow()
			if s.TrackAlloc {
				s.stepStartAlloc = s.allocBytes()
			}
			s.mu.Unlock()
			c.t.grant <- struct{}{}
		} else {
			s.EventsFired++
			s.mu.Unlock()
			c.e.Fire(s.Rng)
		}
	}
}

// Hash is the running hash of all scheduling decisions (determinism self-test).
func (s *Sim) Hash() uint64 { return s.hash }

// Mix folds extra observable data into the run hash (e.g. canonical event log entries).
func (s *Sim) Mix(b []byte) {
	h := fnv.New64a()
	h.Write(b)
	s.mu.Lock()
	s.hash = (s.hash ^ h.Sum64()) * 1099511628211
	s.mu.Unlock()
}

// Shutdown tears the run down: every simulated thread exits via runtime.Goexit at its
// next scheduling point.  drain is called repeatedly to unblock natively blocked threads
// (e.g. receive from / send to the server outbox, cancel contexts).  Returns the number of
// threads that could not be stopped.
func (s *Sim) Shutdown(drain func()) int {
	s.mu.Lock()
	s.killed = true
	s.mu.Unlock()
	for round := 0; round < 200; round++ {
		synctest.Wait()
		s.mu.Lock()
		left := 0
		for _, t := range s.threads {
			if t.st == stDone {
				continue
			}
			left++
			if t.st == stReady || t.st == stBlocked || t.st == stRunning {
				select {
				case t.grant <- struct{}{}:
				default:
				}
			}
		}
		s.mu.Unlock()
		if left == 0 {
			break
		}
		if drain != nil {
			drain()
		}
		synctest.Wait()
		// let sleepers run out
		time.Sleep(10 * time.Second)
	}
	synctest.Wait()
	left := 0
	for _, t := range s.threads {
		if t.st != stDone {
			left++
		}
	}
	setCur(nil)
	return left
}

// Describe returns a one-line description of all live threads (diagnostics).
func (s *Sim) Describe() string {
	out := ""
	for _, t := range s.threads {
		if t.st != stDone {
			out += fmt.Sprintf("[%d %s %s %s %s] ", t.ID, t.Name, t.State(), t.LastKind, t.Note)
		}
	}
	return out
}
