// Package simrand replaces math/rand and crypto/rand in the instrumented copy of mobius
// with a generator seeded from the run seed.
package simrand

import (
	"math/rand"
	"sync"
)

var (
	mu  sync.Mutex
	rng = rand.New(rand.NewSource(1))
)

// Seed resets the generator (called by the harness at the start of every run).
func Seed(s int64) {
	mu.Lock()
	rng = rand.New(rand.NewSource(s))
	mu.Unlock()
}

func Read(b []byte) (int, error) {
	mu.Lock()
	defer mu.Unlock()
	return rng.Read(b)
}

func Uint32() uint32 { mu.Lock(); defer mu.Unlock(); return rng.Uint32() }
func Uint64() uint64 { mu.Lock(); defer mu.Unlock(); return rng.Uint64() }
func Int() int       { mu.Lock(); defer mu.Unlock(); return rng.Int() }
func Int31() int32   { mu.Lock(); defer mu.Unlock(); return rng.Int31() }
func Int63() int64   { mu.Lock(); defer mu.Unlock(); return rng.Int63() }
func Intn(n int) int { mu.Lock(); defer mu.Unlock(); return rng.Intn(n) }
func Int31n(n int32) int32 { mu.Lock(); defer mu.Unlock(); return rng.Int31n(n) }
func Int63n(n int64) int64 { mu.Lock(); defer mu.Unlock(); return rng.Int63n(n) }
func Float64() float64 { mu.Lock(); defer mu.Unlock(); return rng.Float64() }
func Float32() float32 { mu.Lock(); defer mu.Unlock(); return rng.Float32() }
func Perm(n int) []int { mu.Lock(); defer mu.Unlock(); return rng.Perm(n) }
func Shuffle(n int, swap func(i, j int)) { mu.Lock(); defer mu.Unlock(); rng.Shuffle(n, swap) }

// Reader mirrors crypto/rand.Reader.
var Reader = reader{}

type reader struct{}

func (reader) Read(b []byte) (int, error) { return Read(b) }
