package harness

import (
	"bytes"
	"encoding/binary"
	"fmt"
	"io"
	"math/rand"
	"os"
	"path/filepath"
	"strings"
	"time"

	"github.com/jhalter/mobius/hotline"
	rp "github.com/jhalter/mobius/verifsim/refproto"
	"github.com/jhalter/mobius/verifsim/simnet"
	"github.com/jhalter/mobius/verifsim/simrt"
)

// C01: wire format fidelity of every protocol object (DESIGN §6 C01).
//
// Weak fit, stated plainly: the encode/decode relation is a pure function.  The part a
// simulator owns is the stream clause - the emitted bytes are the same, and emission
// terminates, whatever buffer sizes the encoder is drained with: a short-read fault schedule.

// drain reads r with the given buffer-size schedule (cycled); it reports non-termination.
func drain(r io.Reader, sizes []int, expect int) ([]byte, string) {
	var out []byte
	budget := 4*expect + 64
	zero := 0
	for i := 0; ; i++ {
		if i > budget {
			return out, fmt.Sprintf("does not terminate: %d Read calls for an object of %d bytes (drained %d bytes so far)", i, expect, len(out))
		}
		sz := sizes[i%len(sizes)]
		buf := make([]byte, sz)
		n, err := r.Read(buf)
		if n < 0 || n > sz {
			return out, fmt.Sprintf("Read returned n=%d for a %d-byte buffer", n, sz)
		}
		out = append(out, buf[:n]...)
		if err == io.EOF {
			return out, ""
		}
		if err != nil {
			return out, "Read error: " + err.Error()
		}
		if n == 0 {
			zero++
			if zero > 8 {
				return out, "does not terminate: repeated (0, nil) reads"
			}
		} else {
			zero = 0
		}
	}
}

func bufSchedule(rng *rand.Rand) []int {
	switch rng.Intn(8) {
	case 0:
		return []int{1}
	case 1:
		return []int{2, 3, 5, 7}
	case 2:
		return []int{512} // io.ReadAll's first buffer
	case 3:
		return []int{32 * 1024} // io.Copy
	case 4:
		return []int{512, 384, 896, 1280, 2304} // growth like io.ReadAll
	case 5:
		return []int{1 + rng.Intn(64)}
	case 6:
		return []int{1 + rng.Intn(16), 1 + rng.Intn(600), 1 + rng.Intn(4)}
	}
	return []int{1 + rng.Intn(70000)}
}

func biasedLen(rng *rand.Rand, max int) int {
	c := []int{0, 1, 2, 13, 254, 255, 256, 511, 512, 513, 4095, 4096, 65534, 65535}
	for tries := 0; tries < 8; tries++ {
		if v := c[rng.Intn(len(c))]; v <= max {
			if rng.Intn(3) == 0 {
				return rng.Intn(max + 1)
			}
			return v
		}
	}
	return rng.Intn(max + 1)
}

type c01Obj struct {
	Name string
	Make func(rng *rand.Rand) (reader func() io.Reader, want []byte, decode func(b []byte) string)
}

func rb(rng *rand.Rand, n int) []byte {
	b := make([]byte, n)
	rng.Read(b)
	return b
}

var c01Objects = []c01Obj{
	{"field", func(rng *rand.Rand) (func() io.Reader, []byte, func([]byte) string) {
		id := uint16(rng.Intn(65536))
		data := rb(rng, biasedLen(rng, 65535))
		want := (&rp.Tran{Fields: []rp.Field{{ID: id, Data: data}}}).Encode()[22:]
		return func() io.Reader {
				f := hotline.NewField([2]byte{byte(id >> 8), byte(id)}, data)
				return &f
			}, want, func(b []byte) string {
				var f hotline.Field
				if _, err := f.Write(b); err != nil {
					return "Field.Write: " + err.Error()
				}
				if binary.BigEndian.Uint16(f.Type[:]) != id || !bytes.Equal(f.Data, data) {
					return "Field.Write yields a different field"
				}
				return ""
			}
	}},
	{"transaction", func(rng *rand.Rand) (func() io.Reader, []byte, func([]byte) string) {
		t := rp.Tran{Flags: byte(rng.Intn(256)), IsReply: byte(rng.Intn(2)), Type: uint16(rng.Intn(65536)), ID: rng.Uint32(), Err: rng.Uint32()}
		n := rng.Intn(6)
		budget := 65000
		for i := 0; i < n; i++ {
			l := biasedLen(rng, max(0, min(budget, 65535)))
			budget -= l + 4
			t.Fields = append(t.Fields, rp.Field{ID: uint16(rng.Intn(65536)), Data: rb(rng, l)})
		}
		want := t.Encode()
		mk := func() hotline.Transaction {
			ht := hotline.Transaction{Flags: t.Flags, IsReply: t.IsReply}
			binary.BigEndian.PutUint16(ht.Type[:], t.Type)
			binary.BigEndian.PutUint32(ht.ID[:], t.ID)
			binary.BigEndian.PutUint32(ht.ErrorCode[:], t.Err)
			for _, f := range t.Fields {
				ht.Fields = append(ht.Fields, hotline.NewField([2]byte{byte(f.ID >> 8), byte(f.ID)}, f.Data))
			}
			return ht
		}
		return func() io.Reader { ht := mk(); return &ht }, want, func(b []byte) string {
			var ht hotline.Transaction
			if _, err := ht.Write(b); err != nil {
				return "Transaction.Write: " + err.Error()
			}
			if ht.Flags != t.Flags || ht.IsReply != t.IsReply || binary.BigEndian.Uint16(ht.Type[:]) != t.Type || binary.BigEndian.Uint32(ht.ID[:]) != t.ID || binary.BigEndian.Uint32(ht.ErrorCode[:]) != t.Err || len(ht.Fields) != len(t.Fields) {
				return "Transaction.Write yields a different header / field count"
			}
			for i, f := range t.Fields {
				if binary.BigEndian.Uint16(ht.Fields[i].Type[:]) != f.ID || !bytes.Equal(ht.Fields[i].Data, f.Data) {
					return fmt.Sprintf("Transaction.Write: field %d differs", i)
				}
			}
			return ""
		}
	}},
	{"user", func(rng *rand.Rand) (func() io.Reader, []byte, func([]byte) string) {
		u := rp.User{ID: uint16(rng.Intn(65536)), Icon: uint16(rng.Intn(65536)), Flags: uint16(rng.Intn(16)), Name: string(rb(rng, biasedLen(rng, 1200)))}
		want := rp.EncodeUser(u)
		return func() io.Reader {
				return &hotline.User{ID: [2]byte{byte(u.ID >> 8), byte(u.ID)}, Icon: []byte{byte(u.Icon >> 8), byte(u.Icon)}, Flags: []byte{byte(u.Flags >> 8), byte(u.Flags)}, Name: u.Name}
			}, want, func(b []byte) string {
				var hu hotline.User
				if _, err := hu.Write(b); err != nil {
					return "User.Write: " + err.Error()
				}
				if binary.BigEndian.Uint16(hu.ID[:]) != u.ID || hu.Name != u.Name || binary.BigEndian.Uint16(hu.Icon) != u.Icon || binary.BigEndian.Uint16(hu.Flags) != u.Flags {
					return "User.Write yields a different user"
				}
				return ""
			}
	}},
	{"file-name-with-info", func(rng *rand.Rand) (func() io.Reader, []byte, func([]byte) string) {
		name := rb(rng, biasedLen(rng, 255))
		typ, cr := rb(rng, 4), rb(rng, 4)
		size := rng.Uint32()
		want := append(append(append([]byte{}, typ...), cr...), 0, 0, 0, 0, 0, 0, 0, 0, 0, 0, byte(len(name)>>8), byte(len(name)))
		binary.BigEndian.PutUint32(want[8:], size)
		want = append(want, name...)
		return func() io.Reader {
				f := &hotline.FileNameWithInfo{Name: name}
				copy(f.Type[:], typ)
				copy(f.Creator[:], cr)
				binary.BigEndian.PutUint32(f.FileSize[:], size)
				binary.BigEndian.PutUint16(f.NameSize[:], uint16(len(name)))
				return f
			}, want, func(b []byte) string {
				var f hotline.FileNameWithInfo
				if _, err := f.Write(b); err != nil {
					return "FileNameWithInfo.Write: " + err.Error()
				}
				if !bytes.Equal(f.Name, name) || !bytes.Equal(f.Type[:], typ) || binary.BigEndian.Uint32(f.FileSize[:]) != size {
					return "FileNameWithInfo.Write yields a different record"
				}
				if e, err := rp.DecodeFileEntry(b); err != nil || e.Name != string(name) {
					return fmt.Sprintf("reference decoder rejects the record: %v", err)
				}
				return ""
			}
	}},
	{"info-fork", func(rng *rand.Rand) (func() io.Reader, []byte, func([]byte) string) {
		in := rp.InfoFork{Platform: "AMAC", Type: string(rb(rng, 4)), Creator: string(rb(rng, 4)), Flags: rng.Uint32(), PlatformFlags: rng.Uint32(), Name: rb(rng, biasedLen(rng, 255)), Comment: rb(rng, biasedLen(rng, 600))}
		rng.Read(in.CreateDate[:])
		rng.Read(in.ModifyDate[:])
		want := in.Encode()
		return func() io.Reader {
				f := &hotline.FlatFileInformationFork{Name: in.Name}
				copy(f.Platform[:], in.Platform)
				copy(f.TypeSignature[:], in.Type)
				copy(f.CreatorSignature[:], in.Creator)
				binary.BigEndian.PutUint32(f.Flags[:], in.Flags)
				binary.BigEndian.PutUint32(f.PlatformFlags[:], in.PlatformFlags)
				f.CreateDate, f.ModifyDate = in.CreateDate, in.ModifyDate
				_ = f.SetComment(in.Comment)
				return f
			}, want, func(b []byte) string {
				var f hotline.FlatFileInformationFork
				if err := f.UnmarshalBinary(b); err != nil {
					return "FlatFileInformationFork.UnmarshalBinary: " + err.Error()
				}
				if !bytes.Equal(f.Name, in.Name) || !bytes.Equal(f.Comment, in.Comment) || string(f.TypeSignature[:]) != in.Type {
					return "FlatFileInformationFork.UnmarshalBinary yields a different fork"
				}
				got, err := rp.DecodeInfoFork(b)
				if err != nil || !bytes.Equal(got.Name, in.Name) || !bytes.Equal(got.Comment, in.Comment) {
					return fmt.Sprintf("reference decoder: %v", err)
				}
				return ""
			}
	}},
	{"file-header", func(rng *rand.Rand) (func() io.Reader, []byte, func([]byte) string) {
		var parts []string
		for i := 0; i < 1+rng.Intn(4); i++ {
			parts = append(parts, strings.ReplaceAll(randText(rng, 1+rng.Intn(40)), "/", "_"))
		}
		dir := rng.Intn(2) == 0
		pb := rp.FilePath(parts...)
		want := []byte{byte((len(pb) + 2) >> 8), byte(len(pb) + 2), 0, 0}
		if dir {
			want[3] = 1
		}
		want = append(want, pb...)
		return func() io.Reader { h := hotline.NewFileHeader(strings.Join(parts, "/"), dir); return &h }, want, func(b []byte) string {
			var fp hotline.FilePath
			if _, err := fp.Write(b[4:]); err != nil {
				return "FilePath.Write: " + err.Error()
			}
			if len(fp.Items) != len(parts) {
				return fmt.Sprintf("FilePath.Write yields %d items, want %d", len(fp.Items), len(parts))
			}
			for i := range parts {
				if string(fp.Items[i].Name) != parts[i] {
					return "FilePath.Write yields different items"
				}
			}
			return ""
		}
	}},
	{"news-article-list", func(rng *rand.Rand) (func() io.Reader, []byte, func([]byte) string) {
		n := rng.Intn(4)
		type art struct {
			id, parent  uint32
			title, post []byte
			size        uint16
		}
		var arts []art
		var payload []byte
		for i := 0; i < n; i++ {
			a := art{id: uint32(i + 1), parent: uint32(rng.Intn(i + 1)), title: []byte(randText(rng, biasedLen(rng, 255))), post: []byte(randText(rng, biasedLen(rng, 255))), size: uint16(rng.Intn(65536))}
			arts = append(arts, a)
			rec := make([]byte, 22)
			binary.BigEndian.PutUint32(rec[0:], a.id)
			binary.BigEndian.PutUint32(rec[12:], a.parent)
			rec[21] = 1
			rec = append(rec, byte(len(a.title)))
			rec = append(rec, a.title...)
			rec = append(rec, byte(len(a.post)))
			rec = append(rec, a.post...)
			rec = append(rec, 10)
			rec = append(rec, "text/plain"...)
			rec = append(rec, byte(a.size>>8), byte(a.size))
			payload = append(payload, rec...)
		}
		want := []byte{0, 0, 0, 0, 0, 0, 0, byte(n), 0, 0}
		want = append(want, payload...)
		return func() io.Reader {
				var pl []byte
				for _, a := range arts {
					l := hotline.NewsArtList{Title: a.title, Poster: a.post}
					binary.BigEndian.PutUint32(l.ID[:], a.id)
					binary.BigEndian.PutUint32(l.ParentID[:], a.parent)
					binary.BigEndian.PutUint16(l.ArticleSize[:], a.size)
					b, _ := io.ReadAll(&l)
					pl = append(pl, b...)
				}
				return &hotline.NewsArtListData{Count: n, Name: []byte{}, Description: []byte{}, NewsArtList: pl}
			}, want, func(b []byte) string {
				recs, err := decodeArtList(b)
				if err != nil || len(recs) != n {
					return fmt.Sprintf("reference decoder: %v (%d records)", err, len(recs))
				}
				return ""
			}
	}},
	{"news-article-record", func(rng *rand.Rand) (func() io.Reader, []byte, func([]byte) string) {
		title, post := []byte(randText(rng, biasedLen(rng, 255))), []byte(randText(rng, biasedLen(rng, 255)))
		rec := make([]byte, 22)
		binary.BigEndian.PutUint32(rec[0:], 7)
		rec[21] = 1
		rec = append(rec, byte(len(title)))
		rec = append(rec, title...)
		rec = append(rec, byte(len(post)))
		rec = append(rec, post...)
		rec = append(rec, 10)
		rec = append(rec, "text/plain"...)
		rec = append(rec, 0, 9)
		return func() io.Reader {
			l := &hotline.NewsArtList{Title: title, Poster: post, ArticleSize: [2]byte{0, 9}}
			binary.BigEndian.PutUint32(l.ID[:], 7)
			return l
		}, rec, func(b []byte) string { return "" }
	}},
	{"news-category-entry", func(rng *rand.Rand) (func() io.Reader, []byte, func([]byte) string) {
		name := randText(rng, biasedLen(rng, 255))
		bundle := rng.Intn(2) == 0
		na, ns := rng.Intn(5), rng.Intn(5)
		want := []byte{0, 3, 0, byte(na + ns)}
		if bundle {
			want[1] = 2
		} else {
			want = append(want, make([]byte, 24)...)
		}
		want = append(want, byte(len(name)))
		want = append(want, name...)
		return func() io.Reader {
				c := &hotline.NewsCategoryListData15{Name: name, Type: hotline.NewsCategory, Articles: map[uint32]*hotline.NewsArtData{}, SubCats: map[string]hotline.NewsCategoryListData15{}}
				if bundle {
					c.Type = hotline.NewsBundle
				}
				for i := 0; i < na; i++ {
					c.Articles[uint32(i+1)] = &hotline.NewsArtData{}
				}
				for i := 0; i < ns; i++ {
					c.SubCats[fmt.Sprint(i)] = hotline.NewsCategoryListData15{}
				}
				return c
			}, want, func(b []byte) string {
				nm, bd, cnt, err := decodeCatEntry(b)
				if err != nil || nm != name || bd != bundle || cnt != na+ns {
					return fmt.Sprintf("reference decoder: %v", err)
				}
				return ""
			}
	}},
	{"tracker-registration", func(rng *rand.Rand) (func() io.Reader, []byte, func([]byte) string) {
		name, desc, pass := randText(rng, biasedLen(rng, 255)), randText(rng, biasedLen(rng, 255)), randText(rng, rng.Intn(20))
		port, users := uint16(rng.Intn(65536)), rng.Intn(65536)
		pid := rb(rng, 4)
		want := []byte{0, 1, byte(port >> 8), byte(port), byte(users >> 8), byte(users), 0, 0}
		want = append(want, pid...)
		want = append(want, byte(len(name)))
		want = append(want, name...)
		want = append(want, byte(len(desc)))
		want = append(want, desc...)
		want = append(want, byte(len(pass)))
		want = append(want, pass...)
		return func() io.Reader {
			t := &hotline.TrackerRegistration{UserCount: users, Name: name, Description: desc, Password: pass}
			t.Port = [2]byte{byte(port >> 8), byte(port)}
			copy(t.PassID[:], pid)
			return t
		}, want, func(b []byte) string { return "" }
	}},
	{"resume-data", func(rng *rand.Rand) (func() io.Reader, []byte, func([]byte) string) {
		off := rng.Uint32()
		want := rp.ResumeData(off, 0, false)
		return func() io.Reader {
				o := make([]byte, 4)
				binary.BigEndian.PutUint32(o, off)
				b, _ := hotline.NewFileResumeData([]hotline.ForkInfoList{*hotline.NewForkInfoList(o)}).BinaryMarshal()
				return bytes.NewReader(b)
			}, want, func(b []byte) string {
				var frd hotline.FileResumeData
				if err := frd.UnmarshalBinary(b); err != nil {
					return "FileResumeData.UnmarshalBinary: " + err.Error()
				}
				if len(frd.ForkInfoList) != 1 || binary.BigEndian.Uint32(frd.ForkInfoList[0].DataSize[:]) != off {
					return "FileResumeData.UnmarshalBinary yields a different record"
				}
				if got, err := rp.DecodeResumeData(b); err != nil || got != off {
					return fmt.Sprintf("reference decoder: %v", err)
				}
				return ""
			}
	}},
	{"time", func(rng *rand.Rand) (func() io.Reader, []byte, func([]byte) string) {
		year := 1990 + rng.Intn(60)
		secs := rng.Intn(365 * 86400)
		t := time.Date(year, time.January, 1, 0, 0, 0, 0, time.Local).Add(time.Duration(secs) * time.Second)
		want := make([]byte, 8)
		binary.BigEndian.PutUint16(want, uint16(t.Year()))
		binary.BigEndian.PutUint32(want[4:], uint32(t.Sub(time.Date(t.Year(), time.January, 1, 0, 0, 0, 0, time.Local)).Seconds()))
		return func() io.Reader { b := hotline.NewTime(t); return bytes.NewReader(b[:]) }, want, func(b []byte) string { return "" }
	}},
	{"account-record", func(rng *rand.Rand) (func() io.Reader, []byte, func([]byte) string) {
		login, name := randText(rng, 1+rng.Intn(30)), randText(rng, rng.Intn(60))
		var acc rp.Access
		rng.Read(acc[:])
		hasPw := rng.Intn(2) == 0
		pw := ""
		if hasPw {
			pw = "x"
		}
		fs := []rp.Field{rp.FS(rp.FUserName, name), rp.F(rp.FUserLogin, rp.Obfuscate([]byte(login))), rp.F(rp.FUserAccess, acc[:])}
		if hasPw {
			fs = append(fs, rp.FS(rp.FUserPassword, "x"))
		}
		want := subFields(fs)
		hash := HashPw(pw)
		return func() io.Reader {
			return &hotline.Account{Login: login, Name: name, Password: hash, Access: hotline.AccessBitmap(acc)}
		}, want, func(b []byte) string { return "" }
	}},
	{"flattened-file-object", func(rng *rand.Rand) (func() io.Reader, []byte, func([]byte) string) {
		// built by the real file wrapper from a file on disk
		dir := filepath.Join(RunRoot(), "c01")
		_ = os.MkdirAll(dir, 0755)
		name := "f" + randText(rng, rng.Intn(60)) + []string{"", ".txt", ".jpg", ".sit"}[rng.Intn(4)]
		size := rng.Intn(5000)
		_ = os.WriteFile(filepath.Join(dir, name), make([]byte, size), 0644)
		mk := func() io.Reader {
			fw, err := hotline.NewFileWrapper(&hotline.OSFileStore{}, filepath.Join(dir, name), 0)
			if err != nil {
				return bytes.NewReader(nil)
			}
			return fw.Ffo
		}
		ref, _ := io.ReadAll(mk())
		return mk, ref, func(b []byte) string {
			h, err := rp.DecodeFFOHead(b)
			if err != nil {
				return "reference decoder: " + err.Error()
			}
			if string(h.Info.Name) != name || int(h.DataSize) != size || h.Len != len(b) {
				return fmt.Sprintf("flattened file object announces name %q data size %d length %d, want %q %d %d", h.Info.Name, h.DataSize, h.Len, name, size, len(b))
			}
			return ""
		}
	}},
}

func genC01(rng *rand.Rand, c *Case) {
	c.Cfg["policy"] = 3
	for i := 0; i < 40; i++ {
		c.Ops = append(c.Ops, Op{K: "obj", N: []int{rng.Intn(len(c01Objects)), rng.Intn(1 << 30), rng.Intn(1 << 30)}})
	}
	if rng.Intn(8) == 0 {
		// the one object the server emits on its own schedule and to several parties: the tracker registration, sent
		// to every configured tracker every 300 s.  N: trackers, cycles, seed, users that log in between the cycles
		c.Ops = append(c.Ops, Op{K: "trackers", N: []int{1 + rng.Intn(4), 1 + rng.Intn(3), rng.Intn(1 << 30), rng.Intn(3)}})
	}
}

// c01Trackers runs a server with tracker registration enabled inside the simulator (simulated clock, the server's one
// outgoing dial replaced by simnet.DialOut) and checks the datagram every configured tracker receives in every cycle
// against the reference encoding of the registration the server has to make at that moment.
func c01Trackers(w *World, op Op) {
	rng := rand.New(rand.NewSource(int64(op.N[2])))
	w.Cfg.Name, w.Cfg.Description = randText(rng, biasedLen(rng, 255)), randText(rng, biasedLen(rng, 255))
	w.Cfg.EnableTrackerRegistration = true
	for i := 0; i < op.N[0]; i++ {
		w.Cfg.Trackers = append(w.Cfg.Trackers, fmt.Sprintf("10.9.0.%d:%d", i+1, 5499+rng.Intn(3)))
	}
	w.AddAccount("guest", "Guest", "", rp.AccessOf(rp.PNoAgreement))
	got := map[string][]simnet.Datagram{}
	simnet.Out = func(d simnet.Datagram) { got[d.To] = append(got[d.To], d) }
	defer func() { simnet.Out = nil }()
	si := w.StartServer()
	if si.StartErr != nil {
		w.Violate("c01-tracker-start", "%v", si.StartErr)
		return
	}
	w.Sim.Go("srv.trackers", false, func() { si.S.VerifRegisterWithTrackers(si.Ctx) })
	w.Sim.Go("flow", true, func() {
		users := 0
		for cycle := 0; cycle < op.N[1]; cycle++ {
			simrt.Sleep(10 * time.Second) // well inside the cycle
			port := uint16(si.S.Port)
			want := []byte{0, 1, byte(port >> 8), byte(port), byte(users >> 8), byte(users), 0, 0}
			want = append(want, si.S.TrackerPassID[:]...)
			want = append(append(want, byte(len(w.Cfg.Name))), w.Cfg.Name...)
			want = append(append(want, byte(len(w.Cfg.Description))), w.Cfg.Description...)
			want = append(want, 0) // no tracker password configured
			for _, t := range w.Cfg.Trackers {
				w.Probe("tracker_registrations_expected")
				ds := got[t]
				if len(ds) != cycle+1 {
					w.Violate("c01-tracker-registration-count", "cycle %d: tracker %s has received %d registrations, want %d (trackers configured: %v)", cycle, t, len(ds), cycle+1, w.Cfg.Trackers)
					return
				}
				if !bytes.Equal(ds[cycle].Payload, want) {
					w.Violate("c01-tracker-registration-bytes-differ", "cycle %d: tracker %s received %d bytes, the registration (%d users) is %d bytes (common prefix %d)", cycle, t, len(ds[cycle].Payload), users, len(want), commonPrefix(string(ds[cycle].Payload), string(want)))
					return
				}
			}
			if cycle+1 < op.N[1] {
				for i := 0; i < op.N[3]; i++ {
					c := w.NewClient(fmt.Sprintf("u%d-%d", cycle, i), fmt.Sprintf("10.1.%d.%d", cycle, i+1))
					if c.Login("guest", "", c.Name, 1) {
						users++
					}
				}
				simrt.Sleep(290 * time.Second) // the next cycle starts 300 s after the previous one
			}
		}
	})
	w.Sim.Run()
}


func runC01(w *World) {
	for _, op := range w.Case.Ops {
		if op.K == "trackers" {
			c01Trackers(w, op)
			continue
		}
		o := c01Objects[op.N[0]%len(c01Objects)]
		mk, want, dec := o.Make(rand.New(rand.NewSource(int64(op.N[1]))))
		srng := rand.New(rand.NewSource(int64(op.N[2])))
		w.Probe("objects_" + o.Name)
		for k := 0; k < 4; k++ {
			sizes := bufSchedule(srng)
			if o.Name == "account-record" && sizes[0] < 8 && len(sizes) == 1 {
				sizes = []int{8} // every Read of an account record costs a bcrypt comparison
			}
			if len(want) > 4096 { // the encoders rebuild the whole record on every Read: tiny buffers on big records cost O(n^2)
				for i := range sizes {
					sizes[i] = max(sizes[i], 64)
				}
			}
			got, problem := drain(mk(), sizes, len(want))
			w.Probe("drains")
			if problem != "" {
				w.Violate("c01-"+o.Name+"-emission", "%s drained with buffer sizes %v: %s", o.Name, sizes, problem)
				return
			}
			if !bytes.Equal(got, want) {
				sig := "c01-" + o.Name + "-bytes-differ"
				if len(sizes) == 1 && sizes[0] >= len(want) {
					sig = "c01-" + o.Name + "-layout"
				}
				w.Violate(sig, "%s drained with buffer sizes %v: %d bytes, reference encoding has %d (common prefix %d)", o.Name, sizes, len(got), len(want), commonPrefix(string(got), string(want)))
				return
			}
		}
		if msg := dec(want); msg != "" {
			w.Violate("c01-"+o.Name+"-decode", "%s: %s", o.Name, msg)
			return
		}
	}
}

func init() {
	Register(&Scenario{ID: "C01", Gen: genC01, Run: runC01, Pure: true})
}
