// Package simfs replaces the mutating and opening os calls of the persistent stores
// (internal/mobius) in the instrumented copy.  It performs the real operations on real
// files and, when a Recorder is installed, journals every system-call-level step and
// takes a crash image of the watched directory at every step boundary (DESIGN §2.4).
package simfs

import (
	"io/fs"
	"os"
	"path/filepath"
	"sort"
	"strings"
	"sync"

	"github.com/jhalter/mobius/verifsim/simrt"
)

// PageSize is the granularity at which a large write may be cut by a process kill.
const PageSize = 4096

// Image is the content of the watched directory at one step boundary.
type Image struct {
	Seq   int               // journal position: image reflects steps [0,Seq)
	Desc  string            // the step that was just completed
	Files map[string]string // relative path -> content ("<dir>" marker for directories)
	Key   string
}

// Recorder journals steps and collects crash images.
type Recorder struct {
	Root    string
	Steps   []string
	Images  []Image
	Enabled bool
	lastKey string
	Counts  map[string]int // step kind -> count
}

var (
	mu  sync.Mutex
	rec *Recorder
)

// SetRecorder installs (or removes, with nil) the recorder.
func SetRecorder(r *Recorder) {
	mu.Lock()
	rec = r
	mu.Unlock()
	if r != nil {
		if r.Counts == nil {
			r.Counts = map[string]int{}
		}
		r.snap("initial")
	}
}

func recorder() *Recorder {
	mu.Lock()
	defer mu.Unlock()
	return rec
}

// Snapshot reads the watched directory.
func Snapshot(root string) map[string]string {
	out := map[string]string{}
	_ = filepath.Walk(root, func(p string, info fs.FileInfo, err error) error {
		if err != nil {
			return nil
		}
		rel, _ := filepath.Rel(root, p)
		if rel == "." {
			return nil
		}
		if info.IsDir() {
			out[rel] = "<dir>"
			return nil
		}
		if info.Mode()&os.ModeSymlink != 0 {
			l, _ := os.Readlink(p)
			out[rel] = "<link>" + l
			return nil
		}
		b, _ := os.ReadFile(p)
		out[rel] = string(b)
		return nil
	})
	return out
}

func key(m map[string]string) string {
	ks := make([]string, 0, len(m))
	for k := range m {
		ks = append(ks, k)
	}
	sort.Strings(ks)
	var sb strings.Builder
	for _, k := range ks {
		sb.WriteString(k)
		sb.WriteByte(0)
		sb.WriteString(m[k])
		sb.WriteByte(1)
	}
	return sb.String()
}

func (r *Recorder) snap(desc string) {
	if !r.Enabled {
		return
	}
	r.Steps = append(r.Steps, desc)
	kind := desc
	if i := strings.IndexByte(desc, ' '); i > 0 {
		kind = desc[:i]
	}
	r.Counts[kind]++
	files := Snapshot(r.Root)
	k := key(files)
	if k == r.lastKey && len(r.Images) > 0 {
		// identical to the previous boundary: extend it instead of storing a duplicate
		r.Images[len(r.Images)-1].Seq = len(r.Steps)
		return
	}
	r.lastKey = k
	r.Images = append(r.Images, Image{Seq: len(r.Steps), Desc: desc, Files: files, Key: k})
}

// Mark returns the index of the latest image (used to timestamp acknowledgements).
func (r *Recorder) Mark() int { return len(r.Images) - 1 }

func watched(r *Recorder, name string) bool {
	if r == nil || !r.Enabled {
		return false
	}
	rel, err := filepath.Rel(r.Root, name)
	return err == nil && !strings.HasPrefix(rel, "..")
}

func step(name, desc string) {
	r := recorder()
	if watched(r, name) {
		r.snap(desc + " " + filepath.Base(name))
	}
}

// pre is called before every mutating file system call: a scheduling point (the real scheduler can run any other
// goroutine between two system calls), for watched and unwatched files alike.
func pre(name string) {
	simrt.Yield("fs")
}

// File wraps *os.File so that writes through it are journalled.
type File struct {
	*os.File
	name string
}

func (f *File) Write(b []byte) (int, error) {
	if f == nil || f.File == nil {
		return 0, os.ErrInvalid
	}
	if !watched(recorder(), f.name) {
		pre(f.name)
		return f.File.Write(b)
	}
	n := 0
	for len(b) > 0 {
		c := len(b)
		if c > PageSize {
			c = PageSize
		}
		pre(f.name)
		m, err := f.File.Write(b[:c])
		n += m
		step(f.name, "write")
		if err != nil {
			return n, err
		}
		b = b[c:]
	}
	return n, nil
}

func (f *File) WriteString(s string) (int, error) { return f.Write([]byte(s)) }

func (f *File) Close() error {
	if f == nil || f.File == nil {
		return os.ErrInvalid
	}
	err := f.File.Close()
	step(f.name, "close")
	return err
}

func OpenFile(name string, flag int, perm os.FileMode) (*File, error) {
	mutating := flag&(os.O_CREATE|os.O_TRUNC) != 0
	pre(name)
	f, err := os.OpenFile(name, flag, perm)
	if err != nil {
		return nil, err
	}
	if mutating {
		d := "open"
		if flag&os.O_TRUNC != 0 {
			d = "open-trunc"
		} else if flag&os.O_EXCL != 0 {
			d = "open-excl"
		}
		step(name, d)
	}
	return &File{File: f, name: name}, nil
}

func Open(name string) (*File, error) {
	pre(name) // reads are system calls too: a lock held across a file read is observably held
	f, err := os.Open(name)
	if err != nil {
		return nil, err
	}
	return &File{File: f, name: name}, nil
}

func Create(name string) (*File, error) {
	return OpenFile(name, os.O_RDWR|os.O_CREATE|os.O_TRUNC, 0666)
}

func ReadFile(name string) ([]byte, error) {
	pre(name)
	b, err := os.ReadFile(name)
	pre(name) // open ... read/close: two scheduling points, like the two ends of the real call sequence
	return b, err
}

// WriteFile performs os.WriteFile as its system calls: open(O_TRUNC), write..., close.
func WriteFile(name string, data []byte, perm os.FileMode) error {
	f, err := OpenFile(name, os.O_WRONLY|os.O_CREATE|os.O_TRUNC, perm)
	if err != nil {
		return err
	}
	_, err = f.Write(data)
	if err1 := f.Close(); err1 != nil && err == nil {
		err = err1
	}
	return err
}

// AfterRename, when set by a scenario, is called right after a successful rename, before the renaming goroutine
// does anything else: the state an observer can see at the instant a name is published.
var AfterRename func(oldpath, newpath string)

func Rename(oldpath, newpath string) error {
	pre(newpath)
	err := os.Rename(oldpath, newpath)
	if err == nil {
		step(newpath, "rename")
		if f := AfterRename; f != nil {
			f(oldpath, newpath)
		}
	}
	return err
}

func Remove(name string) error {
	pre(name)
	err := os.Remove(name)
	if err == nil {
		step(name, "unlink")
	}
	return err
}

func RemoveAll(name string) error {
	pre(name)
	err := os.RemoveAll(name)
	step(name, "unlink")
	return err
}

func Mkdir(name string, perm os.FileMode) error {
	pre(name)
	err := os.Mkdir(name, perm)
	if err == nil {
		step(name, "mkdir")
	}
	return err
}

func MkdirAll(name string, perm os.FileMode) error {
	pre(name)
	err := os.MkdirAll(name, perm)
	if err == nil {
		step(name, "mkdir")
	}
	return err
}
