package harness

import (
	"fmt"
	"math/rand"
	"os"
	"path/filepath"

	rp "github.com/jhalter/mobius/verifsim/refproto"
	"github.com/jhalter/mobius/verifsim/simrt"
	"gopkg.in/yaml.v3"
)

// C16: a privilege bit means the same on the wire, in memory and on disk (DESIGN §6 C16).
// Weakest fit of the twenty (pure tables); decided inside the restart simulation: accounts are
// created through the protocol / placed as legacy files, checked on disk against an independent
// name table, and checked again after a simulated process restart.

const c16PerRun = 24

// c16Bitmap enumerates: 40 single bits, 780 pairs, all, none, then seeded samples.
func c16Bitmap(n int, rng *rand.Rand) (rp.Access, string) {
	d := rp.DefinedBits
	if n < len(d) {
		return rp.AccessOf(d[n]), fmt.Sprintf("single %d", d[n])
	}
	n -= len(d)
	pairs := len(d) * (len(d) - 1) / 2
	if n < pairs {
		k := 0
		for i := 0; i < len(d); i++ {
			for j := i + 1; j < len(d); j++ {
				if k == n {
					return rp.AccessOf(d[i], d[j]), fmt.Sprintf("pair %d,%d", d[i], d[j])
				}
				k++
			}
		}
	}
	n -= pairs
	switch n {
	case 0:
		return rp.AllAccess(), "all defined"
	case 1:
		return rp.Access{}, "none"
	}
	var a rp.Access
	for _, b := range d {
		if rng.Intn(2) == 0 {
			a.Set(b)
		}
	}
	return a, "sample"
}

func genC16(rng *rand.Rand, c *Case) {
	c.Cfg["policy"] = 3
	c.Cfg["first"] = c.Idx * c16PerRun // the enumeration is driven by the case index: quick covers all singles and pairs
	c.Cfg["sampleseed"] = rng.Intn(1 << 30)
	for j := 0; j < 3; j++ {
		c.Ops = append(c.Ops, Op{K: "authz", N: []int{rng.Intn(c16PerRun)}})
	}
}

func runC16(w *World) {
	cfg := w.Case.Cfg
	rng := rand.New(rand.NewSource(int64(cfg["sampleseed"])))
	type acct struct {
		b    rp.Access
		desc string
	}
	var accts []acct
	for j := 0; j < c16PerRun; j++ {
		b, d := c16Bitmap(cfg["first"]+j, rng)
		accts = append(accts, acct{b, d})
		w.WriteFile(fmt.Sprintf("Users/leg%d.yaml", j), rp.AccountYAMLLegacy(fmt.Sprintf("leg%d", j), "Legacy", HashPw(""), b))
		if cfg["first"]+j < len(rp.DefinedBits) {
			w.Probe("single_bit_bitmaps")
		} else if cfg["first"]+j < len(rp.DefinedBits)+780 {
			w.Probe("pair_bitmaps")
		} else {
			w.Probe("other_bitmaps")
		}
	}
	c05Populate(w)
	w.AddAccount("admin", "Admin", "adminpw", rp.AllAccess())
	si := w.StartServer()
	if si.StartErr != nil {
		w.Violate("c16-start", "server did not start with legacy account files: %v", si.StartErr)
		return
	}
	usersDir := filepath.Join(w.ConfigDir, "Users")
	seq := 0
	fileKeys := func(login string) (rp.Access, []string, error) {
		b, err := os.ReadFile(filepath.Join(usersDir, login+".yaml"))
		if err != nil {
			return rp.Access{}, nil, err
		}
		var af struct {
			Access map[string]bool `yaml:"Access"`
		}
		if err := yaml.Unmarshal(b, &af); err != nil {
			return rp.Access{}, nil, fmt.Errorf("%v (file: %.200s)", err, b)
		}
		var a rp.Access
		var unknown []string
		name2bit := map[string]int{}
		for bit, key := range rp.AccessNames {
			name2bit[key] = bit
		}
		for key, on := range af.Access {
			bit, known := name2bit[key]
			if !known {
				unknown = append(unknown, key)
				continue
			}
			if on {
				a.Set(bit)
			}
		}
		return a, unknown, nil
	}
	grantedAtLogin := func(login string) (rp.Access, *Client, bool) {
		seq++
		pc := w.NewClient(fmt.Sprintf("p%d", seq), fmt.Sprintf("10.6.%d.%d", seq/250, seq%250+1))
		if !pc.Login(login, "", "", 0) {
			return rp.Access{}, pc, false
		}
		return pc.Access, pc, true
	}
	checkAll := func(when string) bool {
		for j, a := range accts {
			for _, login := range []string{fmt.Sprintf("acc%d", j), fmt.Sprintf("leg%d", j)} {
				fa, unknown, err := fileKeys(login)
				if err != nil {
					w.Violate("c16-account-file", "%s: %s (%s): %v", when, login, a.desc, err)
					return false
				}
				if len(unknown) > 0 {
					w.Violate("c16-unknown-key-in-file", "%s: %s: account file uses keys %v that name no protocol privilege", when, login, unknown)
					return false
				}
				if fa != a.b {
					sig := "c16-file-names-wrong-privilege"
					if login[0] == 'l' {
						sig = "c16-legacy-migration-changes-privileges"
					}
					w.Violate(sig, "%s: %s was given %x (%s); its file names the privileges %x (%v)", when, login, a.b, a.desc, fa, bitNames(fa))
					return false
				}
				ga, pc, ok := grantedAtLogin(login)
				if !ok {
					w.Violate("c16-login", "%s: cannot log in as %s", when, login)
					return false
				}
				pc.Disconnect()
				if ga != a.b {
					w.Violate("c16-granted-differs", "%s: %s was given %x (%s); the user-access field at login is %x", when, login, a.b, a.desc, ga)
					return false
				}
			}
		}
		return true
	}

	w.Sim.Go("flow", true, func() {
		admin := w.NewClient("admin-nick", "10.1.0.1")
		if !admin.Login("admin", "adminpw", "", 0) || !admin.Agree(admin.Name, 0, 0, "") {
			w.Violate("c16-login", "administrator could not log in")
			return
		}
		for j, a := range accts {
			var rep rp.Tran
			var ok bool
			if j%2 == 0 {
				rep, ok = admin.NewUser(fmt.Sprintf("acc%d", j), "Made", "", a.b)
			} else {
				rep, ok = admin.UpdateUsers([]UserEdit{{Kind: "create", Login: fmt.Sprintf("acc%d", j), Name: "Made", Access: a.b, PwMode: PwNew, Pw: ""}})
			}
			if !ok || rep.Err != 0 {
				w.Violate("c16-create", "creating acc%d with %x (%s) failed: %s", j, a.b, a.desc, fieldStr(rep, rp.FError))
				return
			}
		}
		// one request creating three accounts whose access fields are 8, 3 and 0 bytes long: every account gets the
		// bytes of ITS field, the bytes a field omits are zero
		bat := []rp.Access{accts[0].b, accts[1%len(accts)].b, {}}
		for k := 3; k < 8; k++ {
			bat[1][k] = 0
		}
		if rep, ok := admin.UpdateUsers([]UserEdit{
			{Kind: "create", Login: "bat0", Name: "Batch", Access: rp.AllAccess(), PwMode: PwNew, Pw: ""},
			{Kind: "create", Login: "bat1", Name: "Batch", Access: accts[1%len(accts)].b, PwMode: PwNew, Pw: "", AccessLen: 3},
			{Kind: "create", Login: "bat2", Name: "Batch", Access: rp.AllAccess(), PwMode: PwNew, Pw: "", AccessLen: -1},
		}); !ok || rep.Err != 0 {
			w.Violate("c16-create", "batched creation with short access fields failed: %s", fieldStr(rep, rp.FError))
			return
		}
		bat[0] = rp.AllAccess()
		// an edit that cannot be carried out (rename to a login that has no file name) together with other privileges:
		// whatever the reply, the account keeps the privileges it had - now and after the restart (checkAll compares
		// acc0 with accts[0] both times)
		{
			var flipped rp.Access
			for _, b := range rp.DefinedBits {
				if !accts[0].b.Has(b) {
					flipped.Set(b)
				}
			}
			admin.UpdateUsers([]UserEdit{{Kind: "rename", Login: "acc0", NewLogin: "no-such-dir/acc0", Name: "Made", Access: flipped, PwMode: PwUnchanged}})
			w.Probe("failed_rename_with_other_privileges")
		}
		checkBat := func(when string) bool {
			for k, want := range bat {
				login := fmt.Sprintf("bat%d", k)
				onDisk, _, err := fileKeys(login)
				if err != nil {
					w.Violate("c16-file-unreadable", "%s: %s: %v", when, login, err)
					return false
				}
				wantDefined := want
				for i := 0; i < 64; i++ {
					if _, def := rp.AccessNames[i]; !def {
						wantDefined.Clear(i)
					}
				}
				if onDisk != wantDefined {
					w.Violate("c16-batch-short-access-field", "%s: %s was created from an access field of %d bytes (%x); its file names the privileges %x", when, login, []int{8, 3, 0}[k], want, onDisk)
					return false
				}
				got, pc, ok := grantedAtLogin(login)
				if ok {
					pc.Disconnect()
				}
				if !ok || got != want {
					w.Violate("c16-batch-short-access-field", "%s: %s was created from an access field of %d bytes (%x); at login it is granted %x (login ok=%v)", when, login, []int{8, 3, 0}[k], want, got, ok)
					return false
				}
			}
			w.Probe("batch_short_access_fields_checked")
			return true
		}
		if !checkAll("before restart") || !checkBat("before restart") {
			return
		}
		w.StopServer()
		simrt.Sleep(5e9)
		if si := w.StartServer(); si.StartErr != nil {
			w.Violate("c16-restart", "server does not restart: %v", si.StartErr)
			return
		}
		w.Probe("restarts")
		if !checkAll("after restart") || !checkBat("after restart") {
			return
		}
		// authorization decisions follow the same bits after the reload
		env := &c05Env{}
		by := w.NewClient("bystander", "10.1.0.9")
		if by.Login("admin", "adminpw", "", 0) && by.Agree(by.Name, 0, 0, "") {
			env.BystanderID = by.MyUserID()
		}
		inst := 0
		for _, op := range w.Case.Ops {
			if op.K != "authz" || inst >= c05Instances {
				continue
			}
			j := op.N[0] % len(accts)
			_, pc, ok := grantedAtLogin(fmt.Sprintf("acc%d", j))
			if !ok {
				continue
			}
			pc.Agree(pc.Name, 0, 0, "")
			for pi, p := range privProbes {
				if p.Name == "disconnect-user" || p.Name == "invite-to-chat" || p.Any { // (Any: probes whose governing privilege is not determined, judged by C05 only)
					continue
				}
				allowed := true
				for _, b := range p.Needs {
					allowed = allowed && accts[j].b.Has(b)
				}
				typ, fields := p.Build(pi*c05Instances+inst, env)
				id := pc.Request(typ, fields...)
				pc.Do(rp.TKeepAlive)
				reps := pc.Replies[id]
				denied := len(reps) == 1 && reps[0].T.Err != 0
				if pc.Closed {
					break
				}
				if allowed && denied {
					w.Violate("c16-authorization-refuses-held-privilege", "after restart acc%d holds %x (%s) but %s (needs %v) was refused: %s", j, accts[j].b, accts[j].desc, p.Name, p.Needs, fieldStr(reps[0].T, rp.FError))
					return
				}
				if !allowed && !denied {
					w.Violate("c16-authorization-grants-missing-privilege", "after restart acc%d holds %x (%s) but %s (needs %v) was not refused", j, accts[j].b, accts[j].desc, p.Name, p.Needs)
					return
				}
				w.Probe("authorization_probes")
			}
			pc.Disconnect()
			inst++
		}
	})
	w.Sim.Run()
}

func bitNames(a rp.Access) []string {
	var o []string
	for _, b := range rp.DefinedBits {
		if a.Has(b) {
			o = append(o, rp.AccessNames[b])
		}
	}
	return o
}

func init() {
	Register(&Scenario{ID: "C16", Gen: genC16, Run: runC16})
}
