package harness

import (
	"fmt"
	"math/rand"
	"os"
	"path/filepath"
	"sort"
	"strings"
	"time"

	"github.com/anishathalye/porcupine"
	"github.com/jhalter/mobius/internal/mobius"
	rp "github.com/jhalter/mobius/verifsim/refproto"
)

// C19: message board and agreement are served whole and lose no post (DESIGN §6 C19).

// boardPost renders a post in the protocol's message-board format with the date masked.
func boardPost(name, body string) string {
	return "From " + name + " " + datePlaceholder + ":\r\r" + body + "\r\r" + strings.Repeat("_", 58) + "\r"
}

// datePlaceholder has the length of a real date, so that masking does not move the 65535-byte field limit
const datePlaceholder = "(Mon00 00:00)"

func maskDates(s string) string { return reNewsDate.ReplaceAllString(s, datePlaceholder) }

// boardEq compares what a client read (dates masked) with the model's board text: the field carries at most 65535
// bytes, and a date cut by that limit is not masked, so the last len(datePlaceholder) bytes of a full field are not compared.
func boardEq(got, want string) bool {
	if len(want) <= 65535 {
		return got == want
	}
	n := 65535 - len(datePlaceholder)
	return len(got) == 65535 && got[:n] == want[:n]
}

type c19In struct {
	Post bool
	ID   int
}

type c19Hist struct {
	ops []porcupine.Operation
}

func genC19(rng *rand.Rand, c *Case) {
	c.Cfg["policy"] = rng.Intn(3)
	// a quarter of the cases make every function entry of the server a scheduling point (races on lock-free shared state)
	c.Cfg["fnyield"] = rng.Intn(4) / 3
	c.Cfg["seg_s2c"] = rng.Intn(2)
	n := 2 + rng.Intn(5)
	c.Cfg["clients"] = n
	c.Cfg["board"] = []int{0, 300, 5000, 30000, 60000, 64800, 65400, 70000}[rng.Intn(8)]
	c.Cfg["agreement"] = []int{0, 50, 4000, 33000, 60000}[rng.Intn(5)]
	c.Cfg["late_delay"] = rng.Intn(120)
	c.Cfg["late"] = rng.Intn(n) // number of clients that log in late (while others post/read)
	// the operator reloads board and agreement from disk (SIGHUP / admin API) this many times while clients are busy
	c.Cfg["reloads"] = rng.Intn(4) * rng.Intn(2)
	c.Cfg["reload_delay"] = rng.Intn(150)
	total := 0
	for i := 0; i < n; i++ {
		k := 1 + rng.Intn(6)
		for j := 0; j < k && total < 36; j++ {
			total++
			if rng.Intn(2) == 0 {
				c.Ops = append(c.Ops, Op{C: i, K: "post", N: []int{rng.Intn(400)}})
			} else {
				c.Ops = append(c.Ops, Op{C: i, K: "read"})
			}
		}
	}
}

func runC19(w *World) {
	cfg := w.Case.Cfg
	n := cfg["clients"]
	rng := rand.New(rand.NewSource(w.Case.Seed ^ 0xc19))
	w.AddAccount("guest", "Guest", "", rp.AllAccess().Without(rp.PNoAgreement))
	initial := strings.ReplaceAll(randText(rng, cfg["board"]), "q", "\r")
	agreement := strings.ReplaceAll(randText(rng, cfg["agreement"]), "q", "\r")
	w.WriteFile("MessageBoard.txt", initial)
	w.WriteFile("Agreement.txt", agreement)
	w.StartServer()
	boardFile := filepath.Join(w.ConfigDir, "MessageBoard.txt")

	var hist []porcupine.Operation
	bodies := map[int]string{} // post id -> formatted post
	type postRec struct {
		id        int
		inv, ret  uint64
		formatted string
		client    int
	}
	var posts []postRec
	type loginRec struct{ from, to uint64 } // interval during which the client was surely registered
	connected := make([]loginRec, n)
	postSeq := 0

	for i := 0; i < n; i++ {
		idx := i
		c := w.NewClient(fmt.Sprintf("user%d", i), fmt.Sprintf("10.1.0.%d", i+1))
		w.Sim.Go(fmt.Sprintf("c%d", i), true, func() {
			if idx >= n-cfg["late"] {
				// late joiners: log in while the others are busy
				Delay(20 + w.Case.Cfg["late_delay"]*idx)
			}
			if !c.Login("guest", "", "", 0) {
				w.Violate("c19-login", "client %d could not log in: %v", idx, c.FrameErr)
				return
			}
			// agreement shown at login must be the complete text
			c.WaitFor(func() bool { return c.find(rp.TShowAgreement) != nil }, defTimeout)
			if t := c.find(rp.TShowAgreement); t == nil {
				w.Violate("c19-no-agreement", "client %d was not shown the agreement", idx)
			} else if d, _ := t.Get(rp.FData); string(d) != agreement {
				w.Violate("c19-agreement-text", "client %d was shown an agreement of %d bytes that differs from the %d-byte agreement text (common prefix %d)", idx, len(d), len(agreement), commonPrefix(string(d), agreement))
			}
			if !c.Agree(c.Name, 0, 0, "") {
				return
			}
			connected[idx].from = w.Sim.Step
			connected[idx].to = ^uint64(0)
			orng := rand.New(rand.NewSource(w.Case.Seed ^ int64(idx*7919)))
			for _, op := range w.Case.Ops {
				if op.C != idx {
					continue
				}
				switch op.K {
				case "post":
					postSeq++
					id := postSeq
					body := fmt.Sprintf("post-%d-by-%d:%s", id, idx, randText(orng, op.N[0]))
					formatted := boardPost(c.Name, body)
					bodies[id] = formatted
					if cfg["reloads"] > 0 && id%2 == 0 {
						w.ReloadDuring((cfg["reload_delay"] + id*7) % 40)
					}
					inv := w.Sim.Step
					rep, ok := c.Do(rp.TOldPostNews, rp.FS(rp.FData, body))
					ret := w.Sim.Step
					if !ok || rep.Err != 0 {
						w.Violate("c19-post-refused", "client %d: post %d not acknowledged (ok=%v err=%d)", idx, id, ok, rep.Err)
						continue
					}
					// on disk when acknowledged
					b, _ := os.ReadFile(boardFile)
					if !strings.Contains(maskDates(strings.ReplaceAll(string(b), "\n", "\r")), formatted) {
						w.Violate("c19-ack-before-durable", "post %d was acknowledged but MessageBoard.txt (%d bytes) does not contain it", id, len(b))
					}
					posts = append(posts, postRec{id: id, inv: inv, ret: ret, formatted: formatted, client: idx})
					hist = append(hist, porcupine.Operation{ClientId: idx, Input: c19In{Post: true, ID: id}, Call: int64(inv), Output: "", Return: int64(ret)})
				case "read":
					inv := w.Sim.Step
					rep, ok := c.Do(rp.TGetMsgs)
					ret := w.Sim.Step
					if !ok || rep.Err != 0 {
						w.Violate("c19-read-refused", "client %d: get-messages not answered", idx)
						continue
					}
					d, _ := rep.Get(rp.FData)
					hist = append(hist, porcupine.Operation{ClientId: idx, Input: c19In{}, Call: int64(inv), Output: maskDates(string(d)), Return: int64(ret)})
				}
			}
			Settle()
		})
	}
	w.StartOperator(cfg["reloads"], cfg["reload_delay"])
	w.Sim.Run()

	for _, c := range w.Clients {
		if c.FrameErr != nil {
			w.Violate("c19-malformed-stream", "client %d: %v", c.Idx, c.FrameErr)
			return
		}
	}

	fb, _ := os.ReadFile(boardFile)
	finalBoard := maskDates(strings.ReplaceAll(string(fb), "\n", "\r"))

	// linearizability of posts and reads against "list of posts, newest first"
	model := porcupine.Model{
		Init: func() interface{} { return "" }, // state: comma separated post ids, newest first
		Step: func(state, input, output interface{}) (bool, interface{}) {
			in := input.(c19In)
			st := state.(string)
			if in.Post {
				return true, fmt.Sprintf("%d,%s", in.ID, st)
			}
			var sb strings.Builder
			for _, f := range strings.Split(st, ",") {
				if f != "" {
					var id int
					fmt.Sscan(f, &id)
					sb.WriteString(bodies[id])
				}
			}
			sb.WriteString(initial)
			return boardEq(output.(string), sb.String()), state
		},
		Equal: func(a, b interface{}) bool { return a.(string) == b.(string) },
	}
	// the search runs after the bubble has ended: inside it the clock is simulated and does not advance while the
	// search computes, so porcupine's timeout would never fire and one hard history would stall the worker
	if len(hist) > 0 {
		w.AfterBubble = append(w.AfterBubble, func() {
			res := porcupine.CheckOperationsTimeout(model, hist, 20*time.Second)
			// independent cross-check of the two deciders (they share nothing but the history)
			wit := c19WitnessCheck(hist, bodies, initial, finalBoard)
			if res == porcupine.Illegal && wit == 1 {
				panic("c19: porcupine says not linearizable, the final-order decider found a linearization")
			}
			if res == porcupine.Ok && wit == -1 {
				w.Violate("c19-final-board-inconsistent", "the history of %d posts/reads is linearizable, but not with the post order the final MessageBoard.txt shows", len(hist))
			}
			switch res {
			case porcupine.Illegal:
				// describe one offending read for the report
				detail := ""
				for _, op := range hist {
					if in := op.Input.(c19In); !in.Post {
						got := op.Output.(string)
						if !c19Plausible(got, bodies, initial) {
							detail = fmt.Sprintf("; e.g. client %d read %d bytes that are not a sequence of whole posts followed by the initial text", op.ClientId, len(got))
							break
						}
					}
				}
				w.Violate("c19-not-linearizable", "history of %d posts/reads has no linearization against 'list of posts, newest first'%s", len(hist), detail)
			case porcupine.Unknown:
				// the general search ran out of time; decide with the post order the final file shows (any
				// linearization must end in that state, so the order of the posts is known and what is left -
				// placing each read - is polynomial)
				switch c19WitnessCheck(hist, bodies, initial, finalBoard) {
				case 1:
					w.Probe("porcupine_timeout_decided_ok_by_final_order")
				case -1:
					w.Violate("c19-not-linearizable", "history of %d posts/reads has no linearization that ends in the post order of the final MessageBoard.txt", len(hist))
				default:
					w.Probe("porcupine_inconclusive")
				}
			default:
				w.Probe("porcupine_ok")
			}
		})
	}

	// announcements: every acknowledged post reaches each client connected throughout exactly once
	for _, p := range posts {
		for _, c := range w.Clients {
			cnt := 0
			for _, r := range c.InboxOf(rp.TNewMsg) {
				d, _ := r.T.Get(rp.FData)
				if maskDates(string(d)) == p.formatted {
					cnt++
				}
			}
			iv := connected[c.Idx]
			whole := iv.to != 0 && iv.from <= p.inv && !c.Closed
			if cnt > 1 {
				w.Violate("c19-announced-twice", "post %d announced %d times to client %d", p.id, cnt, c.Idx)
			}
			if whole && cnt == 0 {
				w.Violate("c19-not-announced", "post %d (acknowledged) was never announced to client %d, which was connected throughout", p.id, c.Idx)
			}
		}
	}

	// restart: a fresh store loaded from the file holds every acknowledged post, newest first
	fn, err := mobius.NewFlatNews(boardFile)
	if err != nil {
		w.Violate("c19-reload", "NewFlatNews after the run: %v", err)
		return
	}
	buf := make([]byte, 1<<20)
	k, _ := fn.Read(buf)
	final := maskDates(string(buf[:k]))
	if !strings.HasSuffix(final, initial) {
		w.Violate("c19-initial-text-lost", "board after restart does not end with the initial text")
	}
	pos := map[int]int{}
	for _, p := range posts {
		i := strings.Index(final, p.formatted)
		if i < 0 {
			w.Violate("c19-post-lost", "acknowledged post %d is missing from the board after restart", p.id)
		}
		pos[p.id] = i
	}
	for _, a := range posts {
		for _, b := range posts {
			// a acknowledged before b was sent => b is newer => b comes first
			if a.ret < b.inv && pos[a.id] >= 0 && pos[b.id] >= 0 && pos[b.id] > pos[a.id] {
				w.Violate("c19-order", "post %d was acknowledged before post %d was sent but appears above it (board is not newest-first)", a.id, b.id)
			}
		}
	}
	if want := len(initial) + func() int {
		t := 0
		for _, p := range posts {
			t += len(p.formatted)
		}
		return t
	}(); len(final) != want {
		w.Violate("c19-board-size", "board after restart has %d bytes, acknowledged posts + initial text are %d", len(final), want)
	}
}

// c19Plausible: text == concat of distinct whole posts + initial (truncated to the field limit).
func c19Plausible(got string, bodies map[int]string, initial string) bool {
	rest := got
	for {
		matched := false
		for _, b := range bodies {
			if strings.HasPrefix(rest, b) {
				rest = rest[len(b):]
				matched = true
				break
			}
		}
		if !matched {
			break
		}
	}
	return rest == initial || (len(got) == 65535 && strings.HasPrefix(initial, rest))
}

func commonPrefix(a, b string) int {
	i := 0
	for i < len(a) && i < len(b) && a[i] == b[i] {
		i++
	}
	return i
}

// c19WitnessCheck decides linearizability given the final board: 1 linearizable, -1 not, 0 cannot tell (a post of
// the history is not in the final board exactly once).
func c19WitnessCheck(hist []porcupine.Operation, bodies map[int]string, initial, final string) int {
	type post struct {
		id       int
		pos      int
		inv, ret int64
	}
	var ps []post
	for _, op := range hist {
		if in := op.Input.(c19In); in.Post {
			b := bodies[in.ID]
			if strings.Count(final, b) != 1 {
				return 0
			}
			ps = append(ps, post{in.ID, strings.Index(final, b), op.Call, op.Return})
		}
	}
	sort.Slice(ps, func(i, j int) bool { return ps[i].pos > ps[j].pos }) // oldest first: rank = index
	if !strings.HasSuffix(final, initial) {
		return -1
	}
	for i := range ps {
		for j := range ps {
			if ps[i].ret < ps[j].inv && i > j {
				return -1 // finished before the other began, yet ordered after it
			}
		}
	}
	// state after the k oldest posts
	states := make([]string, len(ps)+1)
	cur := initial
	states[0] = cur
	for k := 1; k <= len(ps); k++ {
		cur = bodies[ps[k-1].id] + cur
		states[k] = cur
	}
	type read struct {
		inv, ret int64
		out      string
		k        int
	}
	var rs []read
	for _, op := range hist {
		if in := op.Input.(c19In); !in.Post {
			rs = append(rs, read{inv: op.Call, ret: op.Return, out: op.Output.(string)})
		}
	}
	sort.Slice(rs, func(i, j int) bool { return rs[i].inv < rs[j].inv })
	for i := range rs {
		r := &rs[i]
		lo, hi := 0, len(ps)
		for rank, p := range ps {
			if p.ret < r.inv {
				lo = max(lo, rank+1)
			}
			if p.inv > r.ret {
				hi = min(hi, rank)
			}
		}
		for j := 0; j < i; j++ {
			if rs[j].ret < r.inv {
				lo = max(lo, rs[j].k)
			}
		}
		r.k = -1
		for k := lo; k <= hi; k++ {
			if boardEq(r.out, states[k]) {
				r.k = k
				break
			}
		}
		if r.k < 0 {
			return -1
		}
	}
	return 1
}

func init() {
	Register(&Scenario{ID: "C19", Gen: genC19, Run: runC19})
}
