package harness

import (
	"fmt"
	"math/rand"
	"os"
	"path/filepath"
	"strings"

	rp "github.com/jhalter/mobius/verifsim/refproto"
	"github.com/jhalter/mobius/verifsim/simrt"
)

// C14: each client receives whole, well-formed, correlated transactions (DESIGN §6 C14).

var serverInitiated = map[uint16]bool{
	rp.TNewMsg: true, rp.TServerMsg: true, rp.TChatMsg: true, rp.TShowAgreement: true, rp.TDisconnectMsg: true,
	rp.TInviteToChat: true, rp.TNotifyChatChangeUser: true, rp.TNotifyChatDeleteUser: true, rp.TNotifyChatSubject: true,
	rp.TServerBanner: true, rp.TNotifyChangeUser: true, rp.TNotifyDeleteUser: true, rp.TUserAccess: true,
}

func randText(rng *rand.Rand, n int) string {
	b := make([]byte, n)
	for i := range b {
		b[i] = byte('a' + rng.Intn(26))
	}
	return string(b)
}

func genC14(rng *rand.Rand, c *Case) {
	// a quarter of the cases make every function entry of the server a scheduling point (races on lock-free shared state)
	c.Cfg["fnyield"] = rng.Intn(4) / 3
	c.Cfg["policy"] = rng.Intn(3)
	c.Cfg["seg_s2c"] = rng.Intn(2)
	c.Cfg["seg_c2s"] = rng.Intn(2)
	n := 2 + rng.Intn(4)
	c.Cfg["clients"] = n
	c.Cfg["leavers"] = rng.Intn(min(n-1, 2) + 1)
	c.Cfg["board"] = []int{0, 200, 30000, 40000, 64000}[rng.Intn(5)]
	c.Cfg["agreement"] = []int{40, 40, 33000, 60000}[rng.Intn(4)]
	c.Cfg["files"] = []int{3, 3, 300, 1500}[rng.Intn(4)]
	if rng.Intn(3) == 0 {
		c.Cfg["sendbuf"] = []int{4096, 16384, 40000}[rng.Intn(3)]
	}
	big := func() int {
		switch rng.Intn(5) {
		case 0:
			return rng.Intn(50)
		case 1:
			return 8000 + rng.Intn(400)
		case 2:
			return 32700 + rng.Intn(200)
		case 3:
			return 40000 + rng.Intn(20000)
		}
		return rng.Intn(60000)
	}
	for i := 0; i < n; i++ {
		k := 3 + rng.Intn(10)
		for j := 0; j < k; j++ {
			if i >= n-c.Cfg["leavers"] && rng.Intn(2) == 0 {
				c.Ops = append(c.Ops, Op{C: i, K: "cat", N: []int{rng.Intn(len(Catalogue)), rng.Intn(1 << 30)}})
				continue
			}
			switch rng.Intn(12) {
			case 10, 11:
				// any registered request type with plausible (existing or missing) targets: exercises rarely used
				// reply branches; for these only "well-formed, at most one reply, never misdirected" is judged
				// issued only by clients that leave early: such a request may legitimately end the connection,
				// and leavers are never the target of other clients' requests
				if i >= n-c.Cfg["leavers"] {
					c.Ops = append(c.Ops, Op{C: i, K: "cat", N: []int{rng.Intn(len(Catalogue)), rng.Intn(1 << 30)}})
				}
			case 0:
				c.Ops = append(c.Ops, Op{C: i, K: "keepalive"})
			case 1:
				c.Ops = append(c.Ops, Op{C: i, K: "userlist"})
			case 2, 3:
				c.Ops = append(c.Ops, Op{C: i, K: "getmsgs"})
			case 4:
				c.Ops = append(c.Ops, Op{C: i, K: "filelist"})
			case 5:
				c.Ops = append(c.Ops, Op{C: i, K: "postnews", N: []int{big()}})
			case 6:
				c.Ops = append(c.Ops, Op{C: i, K: "chat", N: []int{min(big(), 9000)}})
			case 7:
				c.Ops = append(c.Ops, Op{C: i, K: "broadcast", N: []int{big()}})
			case 8:
				c.Ops = append(c.Ops, Op{C: i, K: "msg", N: []int{rng.Intn(n), big()}})
			case 9:
				c.Ops = append(c.Ops, Op{C: i, K: "info", N: []int{rng.Intn(n)}})
			}
		}
	}
	c14Joiners(rng, c)
}

// c14Joiners: users that log in while the others' requests and broadcasts are in flight (drawn after everything else).
func c14Joiners(rng *rand.Rand, c *Case) {
	c.Cfg["joiners"] = rng.Intn(3)
	if c.Cfg["joiners"] > 0 && rng.Intn(2) == 0 {
		c.Cfg["bigcasts"] = 3 + rng.Intn(6)
	}
	for j := 0; j < c.Cfg["joiners"]; j++ {
		c.Cfg[fmt.Sprintf("jdelay%d", j)] = []int{0, rng.Intn(30), rng.Intn(300), rng.Intn(3000)}[rng.Intn(4)]
	}
}

func runC14(w *World) {
	cfg := w.Case.Cfg
	n := cfg["clients"]
	w.AddAccount("guest", "Guest", "", rp.AllAccess().Without(rp.PNoAgreement))
	rng := rand.New(rand.NewSource(w.Case.Seed ^ 0xc14))
	w.WriteFile("MessageBoard.txt", randText(rng, cfg["board"]))
	w.WriteFile("Agreement.txt", randText(rng, cfg["agreement"]))
	must(os.MkdirAll(filepath.Join(w.FileRoot, "sub"), 0755))
	must(os.MkdirAll(filepath.Join(w.FileRoot, "full"), 0755))
	must(os.WriteFile(filepath.Join(w.FileRoot, "full", "inside.txt"), []byte("x"), 0644))
	for i := 0; i < cfg["files"]; i++ {
		must(os.WriteFile(filepath.Join(w.FileRoot, fmt.Sprintf("file-%04d-%s.dat", i, strings.Repeat("x", i%20))), []byte("x"), 0644))
	}
	w.StartServer()
	var barrier simrt.WaitQ
	ready := 0
	catReq := map[int][]uint32{} // client -> ids of catalogue requests (not required to be answered)
	ids := map[int]uint16{}
	stable := n - cfg["leavers"] // clients [0,stable) stay connected for the whole run
	for i := 0; i < n; i++ {
		idx := i
		c := w.NewClient(fmt.Sprintf("u%d", i), fmt.Sprintf("10.1.%d.%d", i/200, 1+i%200))
		w.Sim.Go(fmt.Sprintf("c%d", i), true, func() {
			ok := c.Login("guest", "", "", 0) && c.Agree(c.Name, uint16(idx), 0, "")
			ready++
			simrt.Wake(&barrier)
			for ready < n {
				simrt.Park(&barrier)
			}
			if !ok {
				w.Violate("c14-login", "client %d could not log in (frame error: %v)", idx, c.FrameErr)
				return
			}
			if us, ok := c.UserList(); ok {
				for _, u := range us {
					var k int
					if _, err := fmt.Sscanf(u.Name, "u%d", &k); err == nil {
						ids[k] = u.ID
					}
				}
			}
			orng := rand.New(rand.NewSource(w.Case.Seed ^ int64(idx)))
			if idx == 0 && cfg["bigcasts"] > 0 {
				// a burst of broadcasts too large for one write, released at the instant a user starts to log in:
				// some of them are addressed to that user while its login is still being answered
				for j := 0; j < cfg["joiners"]; j++ {
					w.Meet(9000+j, 2)
					for k := 0; k < cfg["bigcasts"]; k++ {
						c.Request(rp.TUserBroadcast, rp.FS(rp.FData, randText(orng, 33000+orng.Intn(27000))))
						Delay(orng.Intn(12))
					}
					w.Probe("broadcast_bursts_released_with_a_login")
				}
			}
			for _, op := range w.Case.Ops {
				if op.C != idx {
					continue
				}
				switch op.K {
				case "keepalive":
					c.Request(rp.TKeepAlive)
				case "userlist":
					c.Request(rp.TGetUserNameList)
				case "getmsgs":
					c.Request(rp.TGetMsgs)
				case "filelist":
					c.Request(rp.TGetFileNameList)
				case "postnews":
					c.Request(rp.TOldPostNews, rp.FS(rp.FData, randText(orng, op.N[0])))
				case "chat":
					id := c.Request(rp.TChatSend, rp.FS(rp.FData, randText(orng, op.N[0])))
					delete(c.Sent, id) // chat is not answered; remember it separately
					c.SentNoReply = append(c.SentNoReply, id)
				case "broadcast":
					c.Request(rp.TUserBroadcast, rp.FS(rp.FData, randText(orng, op.N[0])))
				case "msg":
					tgt := op.N[0] % stable
					c.Request(rp.TSendInstantMsg, rp.F16(rp.FUserID, ids[tgt]), rp.F16(rp.FOptions, 1), rp.FS(rp.FData, randText(orng, op.N[1])))
				case "info":
					tgt := op.N[0] % stable
					c.Request(rp.TGetClientInfoText, rp.F16(rp.FUserID, ids[tgt]))
				case "cat":
					spec := Catalogue[op.N[0]%len(Catalogue)]
					if spec.Type == rp.TDisconnectUser || spec.Type == rp.TAgreed || spec.Type == rp.TDeleteUser || spec.Type == rp.TSetUser || spec.Type == rp.TUpdateUser {
						continue // would legitimately remove users / accounts other clients depend on
					}
					env := &valueEnv{Names: []string{"file-0000-.dat", "missing", "sub"}, Paths: [][]string{{"sub"}, {"nowhere"}}, Logins: []string{"guest", "ghost"}, Cats: []string{"General"}}
					for k := 0; k < stable; k++ {
						env.UIDs = append(env.UIDs, ids[k])
					}
					crng := rand.New(rand.NewSource(int64(op.N[1])))
					if op.N[1]%3 == 0 {
						// requests aimed at the error branches of the file handlers: the target exists, the operation
						// cannot succeed (name taken by a file, by a non-empty folder, by itself; parent missing)
						names := []string{"file-0000-.dat", "sub", "full", "missing"}
						a, b := names[crng.Intn(len(names))], names[crng.Intn(len(names))]
						var id uint32
						switch crng.Intn(5) {
						case 0:
							id = c.Request(rp.TSetFileInfo, rp.FS(rp.FFileName, a), rp.FS(rp.FFileNewName, b))
						case 1:
							id = c.Request(rp.TNewFolder, rp.FS(rp.FFileName, a))
						case 2:
							id = c.Request(rp.TMoveFile, rp.FS(rp.FFileName, a), rp.F(rp.FFileNewPath, rp.FilePath(b)))
						case 3:
							id = c.Request(rp.TMakeFileAlias, rp.FS(rp.FFileName, a), rp.F(rp.FFileNewPath, rp.FilePath(b)))
						case 4:
							id = c.Request(rp.TSetFileInfo, rp.FS(rp.FFileName, a), rp.F(rp.FFilePath, rp.FilePath(b)), rp.FS(rp.FFileNewName, a), rp.FS(rp.FFileComment, "c"))
						}
						catReq[idx] = append(catReq[idx], id)
						w.Probe("catalogue_error_branch_requests")
						continue
					}
					id := c.Request(spec.Type, env.ValidRequest(crng, spec)...)
					catReq[idx] = append(catReq[idx], id)
					w.Probe("catalogue_requests")
				}
			}
			if idx >= stable {
				SettleShort()
				c.Disconnect()
				return
			}
			Settle()
			Settle()
		})
	}
	for j := 0; j < cfg["joiners"]; j++ {
		jc := w.NewClient(fmt.Sprintf("j%d", j), fmt.Sprintf("10.2.0.%d", j+1))
		delay := cfg[fmt.Sprintf("jdelay%d", j)]
		jn := j
		w.Sim.Go(fmt.Sprintf("j%d", j), true, func() {
			for ready < n {
				simrt.Park(&barrier)
			}
			Delay(delay)
			if cfg["bigcasts"] > 0 {
				w.Meet(9000+jn, 2) // released together with a burst of large broadcasts from client 0
			}
			w.Probe("logins_during_traffic")
			if !(jc.Login("guest", "", "", 0) && jc.Agree(jc.Name, 77, 0, "")) && jc.FrameErr == nil {
				w.Violate("c14-login-reply-lost", "a user logging in while others' traffic is in flight got no (successful) login reply; it received %d transactions", len(jc.AllRecv))
				return
			}
			jc.Request(rp.TKeepAlive)
			jc.Request(rp.TGetUserNameList)
			Settle()
			Settle()
		})
	}
	w.Sim.Run()
	if os.Getenv("VERIF_DEBUG") != "" {
		fmt.Fprintln(os.Stderr, "end:", w.Sim.EndCause, "threads:", w.Sim.Describe())
		for _, c := range w.Clients {
			fmt.Fprintf(os.Stderr, "client %d closed=%v sent=%d replies=%d inbox=%d c2s-pending=%d s2c-pending=%d written=%d\n", c.Idx, c.Closed, len(c.Sent), len(c.Replies), len(c.Inbox), c.Conn.Peer().Pending(), c.Conn.Pending(), c.Conn.WrittenBytes())
		}
	}

	for _, c := range w.Clients {
		if c.FrameErr != nil {
			w.Violate("c14-malformed-stream", "client %d: byte stream from the server is not a concatenation of well-formed transactions: %v", c.Idx, c.FrameErr)
			continue
		}
		if c.parsed < len(c.Raw) && c.Idx < stable && !c.Closed { // a client that hung up may of course hold a cut-off last transaction
			w.Violate("c14-partial-frame-at-quiescence", "client %d: %d bytes after the last complete transaction never became a complete transaction (stream offset %d, header says total size %d)", c.Idx, len(c.Raw)-c.parsed, c.parsed, partialTotal(c.Raw[c.parsed:]))
			continue
		}
		large := 0
		for _, r := range c.AllRecv {
			sz := 22
			for _, f := range r.T.Fields {
				sz += 4 + len(f.Data)
			}
			if sz > 32768 {
				large++
			}
		}
		if large >= 2 {
			w.Probe("client_received_2plus_transactions_over_32KiB")
		}
		for id, rs := range c.Replies {
			typ, sent := c.Sent[id]
			if !sent {
				noReply := false
				for _, x := range c.SentNoReply {
					noReply = noReply || x == id
				}
				if noReply {
					w.Violate("c14-reply-to-unanswered-type", "client %d got a reply for chat request id %d", c.Idx, id)
				} else {
					w.Violate("c14-misdirected-reply", "client %d received a reply with id %d that it never used on this connection", c.Idx, id)
				}
				continue
			}
			if len(rs) > 1 {
				w.Violate(fmt.Sprintf("c14-duplicate-reply-%d", typ), "client %d: %d replies for request id %d (type %d)", c.Idx, len(rs), id, typ)
			}
		}
		for _, r := range c.Inbox {
			if !serverInitiated[r.T.Type] {
				w.Violate("c14-unexpected-type", "client %d received non-reply transaction of type %d", c.Idx, r.T.Type)
			}
		}
		isCat := map[uint32]bool{}
		for _, id := range catReq[c.Idx] {
			isCat[id] = true
		}
		if c.Idx < stable && !c.Closed && c.LoggedIn {
			for id, typ := range c.Sent {
				if len(c.Replies[id]) == 0 && !isCat[id] {
					w.Violate(fmt.Sprintf("c14-unanswered-%d", typ), "client %d: request id %d (type %d) is answered when issued alone but got no reply under load", c.Idx, id, typ)
				}
			}
		}
		if c.Idx < stable && c.Closed && len(catReq[c.Idx]) == 0 {
			w.Violate("c14-connection-lost", "client %d (well-behaved, stays connected) lost its connection: %v", c.Idx, c.CloseErr)
		}
	}
}

func init() {
	Register(&Scenario{ID: "C14", Gen: genC14, Run: runC14})
}

func partialTotal(b []byte) int {
	if len(b) < 16 {
		return -1
	}
	return int(uint32(b[12])<<24 | uint32(b[13])<<16 | uint32(b[14])<<8 | uint32(b[15]))
}
