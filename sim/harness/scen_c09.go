package harness

import (
	"bytes"
	"fmt"
	"math/rand"
	"os"
	"path/filepath"

	rp "github.com/jhalter/mobius/verifsim/refproto"
	"github.com/jhalter/mobius/verifsim/simfs"
)

// C09: uploads are exact, published atomically, and resumable after any cut (DESIGN §6 C09).

func genC09(rng *rand.Rand, c *Case) {
	c.Cfg["policy"] = rng.Intn(3)
	c.Cfg["seg_c2s"] = rng.Intn(4)
	c.Cfg["mss"] = 1 + rng.Intn(900)
	c.Cfg["shortreads"] = rng.Intn(2)
	c.Cfg["forks"] = rng.Intn(2)
	size := c08Size(rng, c.Tier)
	if c.Cfg["seg_c2s"] == 2 && size > 30000 {
		size = 30000
	}
	c.Cfg["size"] = size
	c.Cfg["dataseed"] = rng.Intn(1 << 30)
	c.Cfg["withrsrc"] = rng.Intn(2)
	c.Cfg["rsrcsize"] = rng.Intn(2000)
	c.Cfg["namelen"] = []int{1, 8, 31, 120}[rng.Intn(4)]
	// 1: the name exists before the upload is requested; 2: it comes into existence between the request and the
	// transfer (a second, earlier-requested upload of the same name completes first)
	c.Cfg["existing"] = []int{0, 0, 0, 0, 1, 2}[rng.Intn(6)]
	if c.Tier == "thorough" && rng.Intn(2) == 0 || rng.Intn(6) == 0 {
		// exhaustive-offset sweep: a 3 KiB upload cut at stream offset (case index mod stream length)
		c.Cfg["sweep"] = 1
		c.Cfg["size"] = 3000
		c.Cfg["namelen"] = 8
		c.Ops = append(c.Ops, Op{K: "cut", N: []int{-1}})
		return
	}
	cuts := rng.Intn(6)
	for i := 0; i < cuts; i++ {
		// N[0] selects the region, N[1] a position inside it (per mille)
		c.Ops = append(c.Ops, Op{K: "cut", N: []int{rng.Intn(9), rng.Intn(1001), []int{0, 1, 0, 1, 2}[rng.Intn(5)], 0}})
	}
	// drawn last, so that the cases generated before these knobs existed keep their shape
	c.Cfg["commentlen"] = []int{0, 0, 1, 40, 255}[rng.Intn(5)]
	for i := range c.Ops {
		if rng.Intn(3) == 0 {
			c.Ops[i].N[3] = 1 // the client asks to resume at once, while the server is still winding the cut transfer down
		}
	}
	if c.Cfg["existing"] == 0 && rng.Intn(3) == 0 {
		// a second client uploads another file into the same folder at the same time, with cuts of its own
		c.Cfg["second"] = 1
		c.Cfg["size2"] = 1 + rng.Intn(40000)
		for i, n := 0, rng.Intn(4); i < n; i++ {
			c.Ops = append(c.Ops, Op{K: "cut2", N: []int{rng.Intn(9), rng.Intn(1001), rng.Intn(3)}})
		}
	}
}

func runC09(w *World) {
	cfg := w.Case.Cfg
	w.AddAccount("guest", "Guest", "", rp.AllAccess().With(rp.PNoAgreement))
	must(os.MkdirAll(filepath.Join(w.FileRoot, "Uploads"), 0755))
	data := GenData(int64(cfg["dataseed"]), cfg["size"])
	rsrc := GenData(int64(cfg["dataseed"])+3, cfg["rsrcsize"])
	withRsrc := cfg["withrsrc"] == 1
	comment := randText(rand.New(rand.NewSource(int64(cfg["dataseed"])+5)), cfg["commentlen"])
	name := "u" + randText(rand.New(rand.NewSource(int64(cfg["dataseed"]))), cfg["namelen"]-1) + ".bin"
	final := filepath.Join(w.FileRoot, "Uploads", name)
	existingContent := []byte("existing content that must survive")
	if cfg["existing"] == 1 {
		must(os.WriteFile(final, existingContent, 0644))
	}
	w.StartServer()
	w.c09Expect = map[string][]byte{}
	simfs.AfterRename = func(_, newpath string) {
		if want, ok := w.c09Expect[newpath]; ok {
			w.Probe("publication_instants_observed")
			if got, _ := os.ReadFile(newpath); !bytes.Equal(got, want) {
				w.Violate("c09-published-before-complete", "at the instant the final name appears it holds %d bytes, the client sent %d (common prefix %d)", len(got), len(want), commonPrefix(string(got), string(want)))
			}
		}
	}
	defer func() { simfs.AfterRename = nil }()
	c := w.NewClient("uploader", "10.1.0.1")

	w.Sim.Go("c0", true, func() {
		if !c.Login("guest", "", c.Name, 1) {
			w.Violate("c09-login", "could not log in")
			return
		}
		path := []string{"Uploads"}
		if cfg["existing"] == 1 {
			_, _, rep, ok := c.UploadReq(path, name, uint32(len(data)), false)
			if ok || rep.Err == 0 {
				// the request was granted although the name exists: try to overwrite
				ref, _ := rep.Get(rp.FRefNum)
				c.SendStream(UploadStream(ref, name, data, rsrc, withRsrc, ""), -1, 0)
			}
			got, _ := os.ReadFile(final)
			if !bytes.Equal(got, existingContent) {
				w.Violate("c09-existing-file-overwritten", "an upload to an existing name changed the file (%d bytes now)", len(got))
			}
			return
		}
		if cfg["existing"] == 2 {
			refA, _, repA, okA := c.UploadReq(path, name, uint32(len(data)), false)
			other := GenData(int64(cfg["dataseed"])+11, max(1, len(data)/2))
			refB, _, repB, okB := c.UploadReq(path, name, uint32(len(other)), false)
			if !okA || !okB {
				w.Violate("c09-upload-refused", "two upload requests for a free name: first ok=%v (%s), second ok=%v (%s)", okA, fieldStr(repA, rp.FError), okB, fieldStr(repB, rp.FError))
				return
			}
			c.SendStream(UploadStream(refA, name, data, rsrc, withRsrc, ""), -1, 0)
			Settle()
			if got, _ := os.ReadFile(final); !bytes.Equal(got, data) {
				w.Violate("c09-content-differs", "first of two requested uploads completed but the file has %d bytes, sent %d", len(got), len(data))
				return
			}
			c.SendStream(UploadStream(refB, name, other, nil, false, ""), -1, 0)
			Settle()
			w.Probe("transfer_started_after_name_was_taken")
			if got, _ := os.ReadFile(final); !bytes.Equal(got, data) {
				w.Violate("c09-existing-file-overwritten", "an upload whose transfer started after the name had been taken changed the published file (%d bytes now, %d published)", len(got), len(data))
			}
			return
		}
		c09Upload(w, c, path, name, data, rsrc, withRsrc, comment, "cut")
	})
	if cfg["second"] == 1 && cfg["existing"] == 0 {
		c2 := w.NewClient("uploader2", "10.1.0.2")
		data2 := GenData(int64(cfg["dataseed"])+21, cfg["size2"])
		rsrc2 := GenData(int64(cfg["dataseed"])+23, cfg["rsrcsize"]/2)
		w.Sim.Go("c1", true, func() {
			if !c2.Login("guest", "", c2.Name, 1) {
				w.Violate("c09-login", "second uploader could not log in")
				return
			}
			w.Probe("second_concurrent_uploader")
			c09Upload(w, c2, []string{"Uploads"}, "v"+name, data2, rsrc2, !withRsrc, "second "+comment, "cut2")
		})
	}
	w.Sim.Run()
	if c.FrameErr != nil {
		w.Violate("c09-malformed-stream", "%v", c.FrameErr)
	}
}

// c09Upload uploads one file with the cuts listed in the case's ops of kind opKind, checking the partial file after
// every cut, the resume offset before every attempt and, after completion, the published file and what a download of
// it returns.
func c09Upload(w *World, c *Client, path []string, name string, data, rsrc []byte, withRsrc bool, comment string, opKind string) {
	cfg := w.Case.Cfg
	final := filepath.Join(append(append([]string{w.FileRoot}, path...), name)...)
	partial := final + ".incomplete"
	// the instant the final name appears it must hold the whole file (not only once the transfer handler is done)
	w.c09Expect[final] = data
	var ops []Op
	for _, op := range w.Case.Ops {
		if op.K == opKind {
			ops = append(ops, op)
		}
	}
	offset := 0     // data bytes the server holds according to the model
	exists := false // the partial file exists according to the model
	check := func(when string) bool {
		if _, err := os.Stat(final); err == nil {
			w.Violate("c09-published-before-complete", "%s: the final name exists although the upload is not complete", when)
			return false
		}
		got, err := os.ReadFile(partial)
		if err != nil {
			if offset > 0 {
				w.Violate("c09-partial-missing", "%s: partial file is missing, the server received %d data bytes", when, offset)
				return false
			}
			// nothing of the data fork has arrived yet: an empty partial file and no partial file are the same
			// "prefix received"; the model follows what the server chose
			exists = false
			return true
		}
		if !bytes.Equal(got, data[:offset]) {
			sig := "c09-partial-not-prefix-received"
			if bytes.HasPrefix(data, got) {
				sig = "c09-partial-wrong-length"
			}
			w.Violate(sig, "%s: partial file has %d bytes, the data bytes received are exactly %d (is a prefix of the data: %v)", when, len(got), offset, bytes.HasPrefix(data, got))
			return false
		}
		return true
	}
	atOnce := false // the previous attempt was cut and nothing has been waited for or checked since
	for attempt, op := range append(ops, Op{K: "finish"}) {
		// what would a client do: resume if the server lists the file (a partial upload is shown under its final name)
		listed := false
		if rep, ok := c.Do(rp.TGetFileNameList, rp.F(rp.FFilePath, rp.FilePath(path...))); ok {
			for _, d := range rep.GetAll(rp.FFileNameWithInfo) {
				if e, err := rp.DecodeFileEntry(d); err == nil && e.Name == name {
					listed = true
				}
			}
		}
		if listed != exists {
			w.Violate("c09-partial-not-listed", "attempt %d: partial upload exists=%v but the file list shows the name: %v", attempt, exists, listed)
			return
		}
		ref, roff, rep, ok := c.UploadReq(path, name, uint32(len(data)), exists)
		if !ok {
			w.Violate("c09-upload-refused", "attempt %d (resume=%v): upload request refused/unanswered: %s", attempt, exists, fieldStr(rep, rp.FError))
			return
		}
		if exists && atOnce {
			// nothing was checked since the cut: the offset the server reports is taken as it is - a resumed upload
			// from that offset must complete to the identical file
			w.Probe("resume_requested_at_once_after_cut")
			if int(roff) > len(data) {
				w.Violate("c09-resume-offset", "attempt %d: server reports resume offset %d for a file of %d bytes", attempt, roff, len(data))
				return
			}
			offset = int(roff)
		} else if exists {
			w.Probe("resume_requests")
			if int(roff) != offset {
				w.Violate("c09-resume-offset", "attempt %d: server reports resume offset %d, it received %d data bytes", attempt, roff, offset)
				return
			}
		}
		stream := UploadStream(ref, name, data[offset:], rsrc, withRsrc, comment)
		info := rp.InfoFork{Name: []byte(name), Comment: []byte(comment)}
		hdr := 16 + 24 + 16 + len(info.Encode()) + 16
		if op.K == "finish" {
			c.SendStream(stream, -1, 0)
			break
		}
		// choose the cut offset
		cut := 0
		if op.N[0] < 0 {
			cut = w.Case.Idx % len(stream)
			w.Probe("sweep_cuts")
		} else {
			regions := [][2]int{{0, 16}, {16, 40}, {40, 56}, {56, hdr - 16}, {hdr - 16, hdr}, {hdr, hdr + 2}, {hdr, len(stream)}, {max(hdr, len(stream)-20), len(stream)}, {0, len(stream)}}
			r := regions[op.N[0]]
			lo, hi := min(r[0], len(stream)-1), min(r[1], len(stream))
			cut = lo + (hi-lo)*op.N[1]/1001
		}
		cut = max(0, min(cut, len(stream)-1))
		w.Probe("fault_cut")
		switch {
		case cut < 16:
			w.Probe("fault_cut_in_preamble")
		case cut < hdr:
			w.Probe("fault_cut_in_header")
		case cut < hdr+len(data)-offset:
			w.Probe("fault_cut_in_data")
		default:
			w.Probe("fault_cut_in_resource_fork")
		}
		graceful := len(op.N) > 2 && op.N[2] == 1
		if op.N[0] < 0 {
			graceful = w.Case.Idx/len(stream)%2 == 1
		}
		switch {
		case len(op.N) > 2 && op.N[2] == 2:
			// the client vanishes: the server learns of the death of this connection only after the upload has been
			// completed over another one
			w.Probe("fault_cut_by_vanishing")
			c.SendStreamAbandon(stream, cut)
		case graceful:
			w.Probe("fault_cut_by_close")
			c.SendStreamCut(stream, cut, 0, true)
		default:
			w.Probe("fault_cut_by_reset")
			c.SendStreamCut(stream, cut, 0, false)
		}
		if cut >= 16 {
			exists = true // the server opens the partial file as soon as it has the transfer preamble
		}
		offset += max(0, min(cut-hdr, len(data)-offset))
		if atOnce = len(op.N) > 3 && op.N[3] == 1 && cut >= 16; atOnce {
			continue
		}
		Settle() // the server notices the reset; its transfer handler ends
		if !check(fmt.Sprintf("after cut %d of attempt %d at stream offset %d", attempt, attempt, cut)) {
			return
		}
	}
	Settle()
	got, err := os.ReadFile(final)
	if err != nil {
		w.Violate("c09-not-published", "upload completed but the final name does not exist: %v", err)
		return
	}
	if !bytes.Equal(got, data) {
		w.Violate("c09-content-differs", "uploaded file has %d bytes and differs from the %d bytes sent (common prefix %d)", len(got), len(data), commonPrefix(string(got), string(data)))
		return
	}
	if _, err := os.Stat(partial); err == nil {
		w.Violate("c09-partial-left-behind", "the partial file still exists after completion")
	}
	if len(c.Abandoned) > 0 {
		for _, x := range c.Abandoned {
			x.Reset()
			w.Probe("fault_late_death_of_abandoned_connection")
		}
		c.Abandoned = nil
		Settle()
		if got, _ := os.ReadFile(final); !bytes.Equal(got, data) {
			w.Violate("c09-published-file-damaged", "after the server learnt that an earlier, abandoned connection of this upload is dead, the published file has %d bytes (sent %d, common prefix %d)", len(got), len(data), commonPrefix(string(got), string(data)))
			return
		}
		if _, err := os.Stat(partial); err == nil {
			w.Violate("c09-partial-left-behind", "a partial file reappeared after the death of an abandoned connection")
		}
	}
	res := c.Download(path, name, -1, false)
	if !res.OK || !bytes.Contains(res.Stream, data) || int(res.FileSize) != len(data) {
		w.Violate("c09-download-differs", "download of the uploaded file does not return the uploaded bytes (ok=%v, stream %d bytes, file size field %d)", res.OK, len(res.Stream), res.FileSize)
		return
	}
	// "what was uploaded is what a later download returns": the data fork exactly, and - when the server is configured
	// to keep forks - the resource fork and the type, creator and comment of the information fork that were uploaded
	h, err := rp.DecodeFFOHead(res.Stream)
	if err != nil {
		w.Violate("c09-download-differs", "download of the uploaded file: %v", err)
		return
	}
	body := res.Stream[h.Len:]
	if int(h.DataSize) != len(data) || !bytes.HasPrefix(body, data) {
		w.Violate("c09-download-differs", "download of the uploaded file: DATA fork of %d bytes, uploaded %d (common prefix %d)", h.DataSize, len(data), commonPrefix(string(body), string(data)))
		return
	}
	if cfg["forks"] == 1 {
		w.Probe("download_checked_with_forks")
		if h.Info.Type != "TEXT" || h.Info.Creator != "ttxt" || string(h.Info.Comment) != comment {
			w.Violate("c09-download-info-differs", "download of the uploaded file: type %q creator %q comment %q, uploaded \"TEXT\" \"ttxt\" %q", h.Info.Type, h.Info.Creator, Short(h.Info.Comment), comment)
		}
		rest := body[len(data):]
		if withRsrc && len(rsrc) > 0 {
			if want := append(rp.ForkHeader("MACR", uint32(len(rsrc))), rsrc...); !bytes.Equal(rest, want) {
				w.Violate("c09-download-rsrc-differs", "download of the uploaded file: %d bytes after the data fork, uploaded a resource fork of %d bytes (MACR header + fork = %d)", len(rest), len(rsrc), len(want))
			}
		}
	}
	w.Probe("uploads_completed")
}

func init() {
	Register(&Scenario{ID: "C09", Gen: genC09, Run: runC09})
}
