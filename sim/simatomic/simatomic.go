// Package simatomic replaces package sync/atomic in the instrumented copy of mobius: every atomic operation is a
// scheduling point (a real scheduler can preempt between any two of them), the operation itself is the real one.
package simatomic

import (
	"sync/atomic"
	"unsafe"

	"github.com/jhalter/mobius/verifsim/simrt"
)

func y() { simrt.Yield("atomic") }

type Int32 struct{ v atomic.Int32 }

func (x *Int32) Load() int32                    { y(); return x.v.Load() }
func (x *Int32) Store(n int32)                  { y(); x.v.Store(n) }
func (x *Int32) Swap(n int32) int32             { y(); return x.v.Swap(n) }
func (x *Int32) Add(d int32) int32              { y(); return x.v.Add(d) }
func (x *Int32) And(m int32) int32              { y(); return x.v.And(m) }
func (x *Int32) Or(m int32) int32               { y(); return x.v.Or(m) }
func (x *Int32) CompareAndSwap(o, n int32) bool { y(); return x.v.CompareAndSwap(o, n) }

type Int64 struct{ v atomic.Int64 }

func (x *Int64) Load() int64                    { y(); return x.v.Load() }
func (x *Int64) Store(n int64)                  { y(); x.v.Store(n) }
func (x *Int64) Swap(n int64) int64             { y(); return x.v.Swap(n) }
func (x *Int64) Add(d int64) int64              { y(); return x.v.Add(d) }
func (x *Int64) And(m int64) int64              { y(); return x.v.And(m) }
func (x *Int64) Or(m int64) int64               { y(); return x.v.Or(m) }
func (x *Int64) CompareAndSwap(o, n int64) bool { y(); return x.v.CompareAndSwap(o, n) }

type Uint32 struct{ v atomic.Uint32 }

func (x *Uint32) Load() uint32                    { y(); return x.v.Load() }
func (x *Uint32) Store(n uint32)                  { y(); x.v.Store(n) }
func (x *Uint32) Swap(n uint32) uint32            { y(); return x.v.Swap(n) }
func (x *Uint32) Add(d uint32) uint32             { y(); return x.v.Add(d) }
func (x *Uint32) And(m uint32) uint32             { y(); return x.v.And(m) }
func (x *Uint32) Or(m uint32) uint32              { y(); return x.v.Or(m) }
func (x *Uint32) CompareAndSwap(o, n uint32) bool { y(); return x.v.CompareAndSwap(o, n) }

type Uint64 struct{ v atomic.Uint64 }

func (x *Uint64) Load() uint64                    { y(); return x.v.Load() }
func (x *Uint64) Store(n uint64)                  { y(); x.v.Store(n) }
func (x *Uint64) Swap(n uint64) uint64            { y(); return x.v.Swap(n) }
func (x *Uint64) Add(d uint64) uint64             { y(); return x.v.Add(d) }
func (x *Uint64) And(m uint64) uint64             { y(); return x.v.And(m) }
func (x *Uint64) Or(m uint64) uint64              { y(); return x.v.Or(m) }
func (x *Uint64) CompareAndSwap(o, n uint64) bool { y(); return x.v.CompareAndSwap(o, n) }

type Uintptr struct{ v atomic.Uintptr }

func (x *Uintptr) Load() uintptr                    { y(); return x.v.Load() }
func (x *Uintptr) Store(n uintptr)                  { y(); x.v.Store(n) }
func (x *Uintptr) Swap(n uintptr) uintptr           { y(); return x.v.Swap(n) }
func (x *Uintptr) Add(d uintptr) uintptr            { y(); return x.v.Add(d) }
func (x *Uintptr) CompareAndSwap(o, n uintptr) bool { y(); return x.v.CompareAndSwap(o, n) }

type Bool struct{ v atomic.Bool }

func (x *Bool) Load() bool                    { y(); return x.v.Load() }
func (x *Bool) Store(b bool)                  { y(); x.v.Store(b) }
func (x *Bool) Swap(b bool) bool              { y(); return x.v.Swap(b) }
func (x *Bool) CompareAndSwap(o, n bool) bool { y(); return x.v.CompareAndSwap(o, n) }

type Value struct{ v atomic.Value }

func (x *Value) Load() any                    { y(); return x.v.Load() }
func (x *Value) Store(val any)                { y(); x.v.Store(val) }
func (x *Value) Swap(val any) any             { y(); return x.v.Swap(val) }
func (x *Value) CompareAndSwap(o, n any) bool { y(); return x.v.CompareAndSwap(o, n) }

type Pointer[T any] struct{ v atomic.Pointer[T] }

func (x *Pointer[T]) Load() *T                    { y(); return x.v.Load() }
func (x *Pointer[T]) Store(p *T)                  { y(); x.v.Store(p) }
func (x *Pointer[T]) Swap(p *T) *T                { y(); return x.v.Swap(p) }
func (x *Pointer[T]) CompareAndSwap(o, n *T) bool { y(); return x.v.CompareAndSwap(o, n) }

// function forms
func AddInt32(a *int32, d int32) int32                 { y(); return atomic.AddInt32(a, d) }
func AddInt64(a *int64, d int64) int64                 { y(); return atomic.AddInt64(a, d) }
func AddUint32(a *uint32, d uint32) uint32             { y(); return atomic.AddUint32(a, d) }
func AddUint64(a *uint64, d uint64) uint64             { y(); return atomic.AddUint64(a, d) }
func AddUintptr(a *uintptr, d uintptr) uintptr         { y(); return atomic.AddUintptr(a, d) }
func LoadInt32(a *int32) int32                         { y(); return atomic.LoadInt32(a) }
func LoadInt64(a *int64) int64                         { y(); return atomic.LoadInt64(a) }
func LoadUint32(a *uint32) uint32                      { y(); return atomic.LoadUint32(a) }
func LoadUint64(a *uint64) uint64                      { y(); return atomic.LoadUint64(a) }
func LoadUintptr(a *uintptr) uintptr                   { y(); return atomic.LoadUintptr(a) }
func LoadPointer(a *unsafe.Pointer) unsafe.Pointer     { y(); return atomic.LoadPointer(a) }
func StoreInt32(a *int32, v int32)                     { y(); atomic.StoreInt32(a, v) }
func StoreInt64(a *int64, v int64)                     { y(); atomic.StoreInt64(a, v) }
func StoreUint32(a *uint32, v uint32)                  { y(); atomic.StoreUint32(a, v) }
func StoreUint64(a *uint64, v uint64)                  { y(); atomic.StoreUint64(a, v) }
func StoreUintptr(a *uintptr, v uintptr)               { y(); atomic.StoreUintptr(a, v) }
func StorePointer(a *unsafe.Pointer, v unsafe.Pointer) { y(); atomic.StorePointer(a, v) }
func SwapInt32(a *int32, v int32) int32                { y(); return atomic.SwapInt32(a, v) }
func SwapInt64(a *int64, v int64) int64                { y(); return atomic.SwapInt64(a, v) }
func SwapUint32(a *uint32, v uint32) uint32            { y(); return atomic.SwapUint32(a, v) }
func SwapUint64(a *uint64, v uint64) uint64            { y(); return atomic.SwapUint64(a, v) }
func CompareAndSwapInt32(a *int32, o, n int32) bool    { y(); return atomic.CompareAndSwapInt32(a, o, n) }
func CompareAndSwapInt64(a *int64, o, n int64) bool    { y(); return atomic.CompareAndSwapInt64(a, o, n) }
func CompareAndSwapUint32(a *uint32, o, n uint32) bool {
	y()
	return atomic.CompareAndSwapUint32(a, o, n)
}
func CompareAndSwapUint64(a *uint64, o, n uint64) bool {
	y()
	return atomic.CompareAndSwapUint64(a, o, n)
}
