package harness

import (
	"encoding/json"
	"fmt"
	"hash/fnv"
	"math/rand"
	"os"
	"path/filepath"
	"runtime"
	"runtime/debug"
	"sort"
	"strconv"
	"strings"
	"testing"
	"testing/synctest"
	"time"
)

// Op is one generated operation of a client script.  Scenarios interpret K, S and N.
type Op struct {
	C int      `json:"c"`
	K string   `json:"k"`
	S []string `json:"s,omitempty"`
	N []int    `json:"n,omitempty"`
}

// Case is a complete, replayable description of one simulated run.
type Case struct {
	Prop string         `json:"prop"`
	Seed int64          `json:"seed"`
	Idx  int            `json:"idx"`
	Tier string         `json:"tier"`
	Cfg  map[string]int `json:"cfg"`
	Ops  []Op           `json:"ops,omitempty"`
	// expectations recorded in replay files
	ExpectSig  string `json:"expect_sig,omitempty"`
	ExpectHash string `json:"expect_hash,omitempty"`
	Note       string `json:"note,omitempty"`
}

// Result of executing one case.
type Result struct {
	Viol     []Violation
	Hash     uint64
	Steps    uint64
	SimTime  time.Duration
	EndCause string
	Multi    uint64
	MaxReady int
	Probes   map[string]int64
	Faults   map[string]int64
	Leftover int
	Infra    string // non-empty: infrastructure problem (not a verdict)
}

// Scenario is the workload + oracle of one property.
type Scenario struct {
	ID   string
	Gen  func(rng *rand.Rand, c *Case) // fills c.Cfg / c.Ops from the PRNG
	Run  func(w *World)                // builds the world, runs the simulation, records violations
	Pure bool                          // no simulator world needed (Run receives a bare World)
	// Mask: configuration overrides under which the property's known findings cannot manifest
	// (DESIGN 5.3).  A violation counts as a known finding only if it disappears under the mask.
	Mask map[string]int
	// AltMasks: further configurations under which the known findings cannot manifest either; a run generated under
	// one of them counts as masked (its violations are never attributed to a known finding)
	AltMasks []map[string]int
}

// maskedCfg reports whether cfg already satisfies the scenario's mask or one of its alternative masks.
func (sc *Scenario) maskedCfg(cfg map[string]int) bool {
	for _, m := range append([]map[string]int{sc.Mask}, sc.AltMasks...) {
		ok := m != nil
		for k, v := range m {
			if cfg[k] != v {
				ok = false
			}
		}
		if ok {
			return true
		}
	}
	return false
}

var scenarios = map[string]*Scenario{}

func Register(s *Scenario) { scenarios[s.ID] = s }

func splitmix(x uint64) uint64 {
	x += 0x9e3779b97f4a7c15
	x = (x ^ (x >> 30)) * 0xbf58476d1ce4e5b9
	x = (x ^ (x >> 27)) * 0x94d049bb133111eb
	return x ^ (x >> 31)
}

func caseSeed(base int64, prop string, idx int) int64 {
	h := fnv.New64a()
	h.Write([]byte(prop))
	return int64(splitmix(uint64(base)^h.Sum64()^splitmix(uint64(idx))) >> 1)
}

// GenCase generates case idx of a property.
func GenCase(prop string, base int64, idx int, tier string) *Case {
	sc := scenarios[prop]
	c := &Case{Prop: prop, Seed: caseSeed(base, prop, idx), Idx: idx, Tier: tier, Cfg: map[string]int{}}
	rng := rand.New(rand.NewSource(c.Seed))
	sc.Gen(rng, c)
	// VERIF_CFG="k=v,k=v" overrides generated configuration (debugging, masked modes)
	for _, kv := range strings.Split(os.Getenv("VERIF_CFG"), ",") {
		if k, v, ok := strings.Cut(kv, "="); ok {
			if n, err := strconv.Atoi(v); err == nil {
				c.Cfg[k] = n
			}
		}
	}
	return c
}

// Execute runs one case inside a fresh synctest bubble.
func Execute(t *testing.T, c *Case) (res Result) {
	sc := scenarios[c.Prop]
	if sc == nil {
		res.Infra = "unknown property " + c.Prop
		return
	}
	var w *World
	defer func() {
		// checks deferred to real time; a recovered end-of-bubble panic (leftover threads) still gets here
		if w == nil || res.Infra != "" {
			return
		}
		defer func() {
			if r := recover(); r != nil {
				res.Infra = "after-bubble check panic: " + fmt.Sprint(r) + "\n" + string(debug.Stack())
			}
		}()
		for _, f := range w.AfterBubble {
			f()
		}
		res.Viol = w.Violations()
		res.Probes = w.Probes
	}()
	defer func() {
		if r := recover(); r != nil {
			msg := fmt.Sprint(r)
			if strings.Contains(msg, "deadlock") && strings.Contains(msg, "bubble") {
				// threads that could not be stopped at teardown (DESIGN §2.5); the verdict stands
				res.Leftover = -1
				return
			}
			res.Infra = "harness panic: " + msg + "\n" + string(debug.Stack())
		}
	}()
	synctest.Test(t, func(t *testing.T) {
		w = NewWorld(c)
		func() {
			defer func() {
				if r := recover(); r != nil {
					res.Infra = "scenario panic: " + fmt.Sprint(r) + "\n" + string(debug.Stack())
				}
			}()
			sc.Run(w)
		}()
		w.finish()
		res.Viol = w.Violations()
		// a run is identified by its generated case and by every scheduling decision taken
		cj, _ := json.Marshal(struct {
			Cfg map[string]int
			Ops []Op
		}{c.Cfg, c.Ops})
		ch := fnv.New64a()
		ch.Write(cj)
		res.Hash = w.Acc.Hash*1099511628211 ^ ch.Sum64()
		res.Steps = w.Acc.Steps
		res.SimTime = w.Acc.SimTime
		res.EndCause = strings.Join(w.Acc.Ends, "+")
		res.Multi = w.Acc.Multi
		res.MaxReady = w.Acc.MaxReady
		res.Probes = w.Probes
		st := w.Acc.Net
		res.Faults = map[string]int64{
			"seg": st.Segments, "shortread": st.ShortReads, "reset": st.Resets, "close": st.Closes,
			"stall_blocked_write": st.BlockedWrites, "conns": st.Conns,
		}
		for k, v := range w.Probes {
			if strings.HasPrefix(k, "fault_") {
				res.Faults[strings.TrimPrefix(k, "fault_")] += v
			}
		}
		res.Leftover = w.Acc.Leftover
	})
	return
}

func hasSig(vs []Violation, sig string) bool {
	for _, v := range vs {
		if v.Sig == sig {
			return true
		}
	}
	return false
}

// Minimise shrinks c.Ops (ddmin) while the violation with signature sig persists.
func Minimise(t *testing.T, c *Case, sig string, budget time.Duration) (*Case, int) {
	start := time.Now()
	tries := 0
	best := *c
	try := func(ops []Op, cfg map[string]int) bool {
		if time.Since(start) > budget {
			return false
		}
		tries++
		cand := best
		cand.Ops = ops
		if cfg != nil {
			cand.Cfg = cfg
		}
		r := Execute(t, &cand)
		if r.Infra == "" && hasSig(r.Viol, sig) {
			best = cand
			return true
		}
		return false
	}
	n := 2
	for len(best.Ops) >= 2 && time.Since(start) < budget {
		ops := best.Ops
		chunk := (len(ops) + n - 1) / n
		reduced := false
		for i := 0; i < len(ops); i += chunk {
			j := min(i+chunk, len(ops))
			cand := append(append([]Op{}, ops[:i]...), ops[j:]...)
			if try(cand, nil) {
				n = max(n-1, 2)
				reduced = true
				break
			}
		}
		if !reduced {
			if n >= len(ops) {
				break
			}
			n = min(n*2, len(ops))
		}
	}
	// simplify the schedule policy: prefer FIFO (3) if it still fails
	if best.Cfg["policy"] != 3 {
		cfg := map[string]int{}
		for k, v := range best.Cfg {
			cfg[k] = v
		}
		cfg["policy"] = 3
		try(best.Ops, cfg)
	}
	return &best, tries
}

// WorkerOut is what one worker process reports.
type WorkerOut struct {
	Prop       string            `json:"prop"`
	Tier       string            `json:"tier"`
	Seed       int64             `json:"seed"`
	Worker     int               `json:"worker"`
	Runs       int               `json:"runs"`
	Nontrivial int               `json:"nontrivial"`
	Hashes     []string          `json:"hashes"`
	Violations []FoundViolation  `json:"violations"`
	Probes     map[string]int64  `json:"probes"`
	Faults     map[string]int64  `json:"faults"`
	SimTimeS   float64           `json:"sim_time_s"`
	Steps      uint64            `json:"steps"`
	MultiSteps uint64            `json:"multi_steps"`
	EndCauses  map[string]int    `json:"end_causes"`
	Samples    []json.RawMessage `json:"samples"`
	Infra      []string          `json:"infra"`
	WallS      float64           `json:"wall_s"`
	Leftover   int               `json:"leftover_threads"`
	Exhaustive bool              `json:"exhaustive"`
}

type FoundViolation struct {
	Prop             string `json:"prop"`
	Sig              string `json:"sig"`
	Msg              string `json:"msg"`
	Seed             int64  `json:"seed"`
	Idx              int    `json:"idx"`
	Replay           string `json:"replay"`
	Tries            int    `json:"minimise_tries"`
	OpsBefore        int    `json:"ops_before"`
	OpsAfter         int    `json:"ops_after"`
	MaskApplied      bool   `json:"mask_applied"`       // the failing run already ran under the property's mask
	MaskedStillFails bool   `json:"masked_still_fails"` // the minimised case also fails with the mask switched on
}

func envInt(k string, def int) int {
	if v := os.Getenv(k); v != "" {
		if n, err := strconv.Atoi(v); err == nil {
			return n
		}
	}
	return def
}

// Main is the entry point of the test binary (see sim_test.go).
func Main(t *testing.T) {
	prop := os.Getenv("VERIF_PROP")
	if prop == "" {
		t.Skip("VERIF_PROP not set")
	}
	defer func() {
		if runRoot != "" {
			_ = os.RemoveAll(runRoot)
		}
	}()
	os.Stdout, _ = os.OpenFile(os.DevNull, os.O_WRONLY, 0) // the server prints recovered panics to stdout
	tier := os.Getenv("VERIF_TIER")
	if tier == "" {
		tier = "quick"
	}
	base := int64(envInt("VERIF_SEED", 1))
	out := os.Getenv("VERIF_OUT")

	if rpath := os.Getenv("VERIF_REPLAY"); rpath != "" {
		replay(t, rpath, out)
		return
	}

	runs := envInt("VERIF_RUNS", 50)
	wi, wn := 0, 1
	if w := os.Getenv("VERIF_WORKER"); w != "" {
		fmt.Sscanf(w, "%d/%d", &wi, &wn)
	}
	budget := time.Duration(envInt("VERIF_BUDGET_S", 3600)) * time.Second
	replayDir := os.Getenv("VERIF_REPLAY_DIR")
	selftest := os.Getenv("VERIF_SELFTEST") != ""
	start := time.Now()

	wo := WorkerOut{Prop: prop, Tier: tier, Seed: base, Worker: wi, Probes: map[string]int64{}, Faults: map[string]int64{}, EndCauses: map[string]int{}}
	seenSig := map[string]bool{}
	for idx := wi; idx < runs; idx += wn {
		if time.Since(start) > budget {
			break
		}
		c := GenCase(prop, base, idx, tier)
		r := Execute(t, c)
		wo.Runs++
		if os.Getenv("VERIF_DEBUG") != "" {
			var ms runtime.MemStats
			runtime.ReadMemStats(&ms)
			fmt.Fprintf(os.Stderr, "run idx=%d heap=%dMB sys=%dMB goroutines=%d gc=%d\n", idx, ms.HeapAlloc>>20, ms.Sys>>20, runtime.NumGoroutine(), ms.NumGC)
		}
		if r.Infra != "" {
			wo.Infra = append(wo.Infra, fmt.Sprintf("idx %d: %s", idx, r.Infra))
			if len(wo.Infra) > 5 {
				break
			}
			continue
		}
		wo.Hashes = append(wo.Hashes, strconv.FormatUint(r.Hash, 16))
		nontriv := r.Multi > 0
		for k, v := range r.Faults {
			wo.Faults[k] += v
			if v > 0 && k != "conns" && k != "close" && k != "seg" {
				nontriv = true
			}
		}
		if nontriv || scenarios[prop].Pure {
			wo.Nontrivial++
		}
		for k, v := range r.Probes {
			wo.Probes[k] += v
		}
		wo.SimTimeS += r.SimTime.Seconds()
		wo.Steps += r.Steps
		wo.MultiSteps += r.Multi
		wo.EndCauses[r.EndCause]++
		if r.Leftover != 0 {
			wo.Leftover++
		}
		if len(wo.Samples) < 2 {
			b, _ := json.Marshal(c)
			if len(b) > 6000 {
				b, _ = json.Marshal(map[string]any{"prop": c.Prop, "seed": c.Seed, "cfg": c.Cfg, "ops_count": len(c.Ops), "first_ops": c.Ops[:min(len(c.Ops), 12)]})
			}
			wo.Samples = append(wo.Samples, b)
		}
		if selftest {
			continue
		}
		for _, v := range r.Viol {
			if seenSig[v.Sig] {
				continue
			}
			seenSig[v.Sig] = true
			fv := FoundViolation{Prop: v.Prop, Sig: v.Sig, Msg: v.Msg, Seed: c.Seed, Idx: idx, OpsBefore: len(c.Ops)}
			mc := c
			if len(wo.Violations) < 6 {
				mc, fv.Tries = Minimise(t, c, v.Sig, time.Duration(envInt("VERIF_MIN_S", 40))*time.Second)
			}
			fv.OpsAfter = len(mc.Ops)
			mc.ExpectSig = v.Sig
			// re-run the minimised case to record its message and hash
			rr := Execute(t, mc)
			mc.ExpectHash = strconv.FormatUint(rr.Hash, 16)
			for _, x := range rr.Viol {
				if x.Sig == v.Sig {
					fv.Msg = x.Msg
					mc.Note = x.Msg
				}
			}
			if mask := scenarios[prop].Mask; mask != nil {
				fv.MaskApplied = scenarios[prop].maskedCfg(mc.Cfg)
				if !fv.MaskApplied {
					masked := *mc
					masked.Cfg = map[string]int{}
					for k, v := range mc.Cfg {
						masked.Cfg[k] = v
					}
					for k, v := range mask {
						masked.Cfg[k] = v
					}
					mr := Execute(t, &masked)
					fv.MaskedStillFails = mr.Infra != "" || hasSig(mr.Viol, v.Sig)
				}
			}
			if replayDir != "" {
				_ = os.MkdirAll(replayDir, 0755)
				name := fmt.Sprintf("%s-%s-%d.json", prop, sanitize(v.Sig), c.Seed)
				p := filepath.Join(replayDir, name)
				b, _ := json.MarshalIndent(mc, "", " ")
				_ = os.WriteFile(p, b, 0644)
				fv.Replay = p
			}
			wo.Violations = append(wo.Violations, fv)
		}
	}
	wo.WallS = time.Since(start).Seconds()
	writeOut(out, wo)
}

func sanitize(s string) string {
	var sb strings.Builder
	for _, c := range s {
		if c >= 'a' && c <= 'z' || c >= 'A' && c <= 'Z' || c >= '0' && c <= '9' || c == '-' || c == '_' {
			sb.WriteRune(c)
		} else {
			sb.WriteByte('_')
		}
	}
	r := sb.String()
	if len(r) > 60 {
		r = r[:60]
	}
	return r
}

func writeOut(path string, v any) {
	b, _ := json.Marshal(v)
	if path == "" {
		fmt.Fprintln(os.Stderr, string(b))
		return
	}
	_ = os.WriteFile(path, b, 0644)
}

// replay executes a replay file and reports whether the recorded violation reproduces.
func replay(t *testing.T, path, out string) {
	b, err := os.ReadFile(path)
	if err != nil {
		t.Fatalf("replay: %v", err)
	}
	var c Case
	if err := json.Unmarshal(b, &c); err != nil {
		t.Fatalf("replay: %v", err)
	}
	r := Execute(t, &c)
	type rep struct {
		MaskApplied      bool        `json:"mask_applied"`
		MaskedStillFails bool        `json:"masked_still_fails"`
		Reproduced       bool        `json:"reproduced"`
		HashMatch        bool        `json:"hash_match"`
		Hash             string      `json:"hash"`
		Viol             []Violation `json:"violations"`
		Infra            string      `json:"infra"`
	}
	o := rep{Viol: r.Viol, Infra: r.Infra, Hash: strconv.FormatUint(r.Hash, 16)}
	o.Reproduced = c.ExpectSig == "" && len(r.Viol) > 0 || hasSig(r.Viol, c.ExpectSig)
	o.HashMatch = c.ExpectHash == "" || c.ExpectHash == o.Hash
	if mask := scenarios[c.Prop].Mask; mask != nil && o.Reproduced {
		o.MaskApplied = scenarios[c.Prop].maskedCfg(c.Cfg)
		masked := c
		masked.Cfg = map[string]int{}
		for k, v := range c.Cfg {
			masked.Cfg[k] = v
		}
		for k, v := range mask {
			masked.Cfg[k] = v
		}
		if !o.MaskApplied {
			mr := Execute(t, &masked)
			o.MaskedStillFails = mr.Infra != "" || hasSig(mr.Viol, c.ExpectSig)
		}
	}
	writeOut(out, o)
	sort.Slice(r.Viol, func(i, j int) bool { return r.Viol[i].Sig < r.Viol[j].Sig })
	for _, v := range r.Viol {
		fmt.Fprintf(os.Stderr, "violation %s: %s\n", v.Sig, v.Msg)
	}
}
