package harness

import (
	"bytes"
	"fmt"
	"math/rand"
	"os"
	"path/filepath"
	"strings"

	rp "github.com/jhalter/mobius/verifsim/refproto"
)

// C08: downloads deliver exactly the file's bytes (DESIGN §6 C08).

func c08Size(rng *rand.Rand, tier string) int {
	switch rng.Intn(9) {
	case 0:
		return 0
	case 1:
		return 1
	case 2:
		return 511 + rng.Intn(3)
	case 3:
		return 32767 + rng.Intn(3)
	case 4:
		return 65535 + rng.Intn(3)
	case 5:
		if tier == "thorough" || rng.Intn(4) == 0 {
			return 1<<20 - 1 + rng.Intn(3)
		}
		return 100000 + rng.Intn(1000)
	case 6:
		return 4095 + rng.Intn(3)
	}
	return rng.Intn(20000)
}

func c08Name(rng *rand.Rand, i int) string {
	base := fmt.Sprintf("f%d", i)
	switch rng.Intn(6) {
	case 0:
		return base
	case 1:
		return base + ".txt"
	case 2:
		return base + " with spaces and a longer name.jpg"
	case 3:
		return base + strings.Repeat("n", 200) // long names (file system limit is 255 bytes)
	case 4:
		return base + ".incomplete.zip"
	}
	return base + "-" + randText(rng, 1+rng.Intn(30)) + ".sit"
}

func genC08(rng *rand.Rand, c *Case) {
	c.Cfg["policy"] = rng.Intn(3)
	c.Cfg["seg_s2c"] = rng.Intn(4)
	c.Cfg["seg_c2s"] = rng.Intn(2)
	c.Cfg["mss"] = 1 + rng.Intn(1400)
	c.Cfg["forks"] = rng.Intn(2)
	if rng.Intn(3) == 0 {
		c.Cfg["sendbuf"] = []int{512, 4096, 40000}[rng.Intn(3)] // slow reader: server writes block
	}
	c.Cfg["clients"] = 1 + rng.Intn(2)
	c.Cfg["maxsteps"] = 2500000
	nf := 1 + rng.Intn(4)
	for i := 0; i < nf; i++ {
		size := c08Size(rng, c.Tier)
		if (c.Cfg["seg_s2c"] == 2 || c.Cfg["sendbuf"] == 512) && size > 70000 { // byte-wise delivery of a megabyte is too slow for every run
			size = 70000
		}
		// file: S[name], N[size, dataseed, hasInfo, hasRsrc, rsrcSize]
		c.Ops = append(c.Ops, Op{C: -1, K: "file", S: []string{c08Name(rng, i)}, N: []int{size, rng.Intn(1 << 30), rng.Intn(3) / 2, rng.Intn(3) / 2, rng.Intn(3000)}})
	}
	nd := 2 + rng.Intn(6)
	for j := 0; j < nd; j++ {
		fi := rng.Intn(nf)
		size := c.Ops[fi].N[0]
		off := -1
		switch rng.Intn(8) {
		case 0:
			off = 0
		case 1:
			off = min(1, size)
		case 2:
			off = max(0, size-1)
		case 3:
			off = size
		case 4:
			off = rng.Intn(size + 1)
		}
		preview := 0
		if (off < 0 && rng.Intn(5) == 0) || (off >= 0 && rng.Intn(6) == 0) {
			preview = 1 // also together with a resume offset: the bare data from that offset
		}
		if preview == 0 && rng.Intn(7) == 0 {
			preview = 2 + rng.Intn(5) // a transfer-options field that is not the preview value (see c08OddOptions)
		}
		c.Ops = append(c.Ops, Op{C: rng.Intn(c.Cfg["clients"]), K: "get", N: []int{fi, off, preview}})
	}
}

func runC08(w *World) {
	cfg := w.Case.Cfg
	w.AddAccount("guest", "Guest", "", rp.AllAccess().With(rp.PNoAgreement))
	type fileRec struct {
		name       string
		data, rsrc []byte
		hasInfo    bool
		hasRsrc    bool
		comment    string
	}
	var files []fileRec
	for _, op := range w.Case.Ops {
		if op.K != "file" {
			continue
		}
		f := fileRec{name: op.S[0], data: GenData(int64(op.N[1]), op.N[0]), hasInfo: op.N[2] == 1, hasRsrc: op.N[3] == 1}
		must(os.WriteFile(filepath.Join(w.FileRoot, f.name), f.data, 0644))
		if f.hasInfo {
			f.comment = "comment for " + f.name[:min(len(f.name), 20)]
			// comment lengths around the buffer sizes a header passes through (io.ReadAll's 512, io.Copy's 32 KiB)
			if cl := []int{-1, -1, 0, 383, 600, 5000, 33000, 60000}[op.N[1]%8]; cl >= 0 {
				f.comment = randText(rand.New(rand.NewSource(int64(op.N[1]))), cl)
			}
			info := rp.InfoFork{Platform: "AMAC", Type: "TEXT", Creator: "ttxt", Name: []byte(f.name), Comment: []byte(f.comment)}
			must(os.WriteFile(filepath.Join(w.FileRoot, ".info_"+f.name), info.Encode(), 0644))
		}
		if f.hasRsrc {
			f.rsrc = GenData(int64(op.N[1])+7, op.N[4])
			must(os.WriteFile(filepath.Join(w.FileRoot, ".rsrc_"+f.name), f.rsrc, 0644))
		}
		files = append(files, f)
	}
	w.StartServer()

	for ci := 0; ci < cfg["clients"]; ci++ {
		idx := ci
		c := w.NewClient(fmt.Sprintf("dl%d", ci), fmt.Sprintf("10.1.0.%d", ci+1))
		w.Sim.Go(fmt.Sprintf("c%d", ci), true, func() {
			if !c.Login("guest", "", c.Name, 1) {
				w.Violate("c08-login", "client %d could not log in", idx)
				return
			}
			for _, op := range w.Case.Ops {
				if op.K != "get" || op.C != idx {
					continue
				}
				f := files[op.N[0]]
				k := op.N[1]
				preview := op.N[2] == 1
				var res DownloadResult
				if op.N[2] >= 2 {
					res = c.DownloadOpt(nil, f.name, int64(k), c08OddOptions[(op.N[2]-2)%len(c08OddOptions)])
				} else {
					res = c.Download(nil, f.name, int64(k), preview)
				}
				if k < 0 {
					k = 0
				}
				what := fmt.Sprintf("file %q (%d bytes, info fork %v, resource fork %v/%d) resume offset %d preview %v", shortName(f.name), len(f.data), f.hasInfo, f.hasRsrc, len(f.rsrc), op.N[1], preview)
				if !res.OK {
					if res.Reply.Err != 0 {
						w.Violate("c08-download-refused", "%s: refused: %s", what, fieldStr(res.Reply, rp.FError))
					} else {
						w.Violate("c08-download-unanswered", "%s: no usable reply", what)
					}
					continue
				}
				w.Probe("downloads")
				remaining := f.data[k:]
				if int(res.FileSize) != len(remaining) {
					w.Violate("c08-reply-file-size", "%s: reply field 207 (file size) is %d, remaining data length is %d", what, res.FileSize, len(remaining))
				}
				s := res.Stream
				if op.N[2] >= 2 {
					// the property does not say which values of the options field ask for a preview.  Whichever way
					// the server reads this one, the download must be one of the two kinds as a whole: announced as
					// bare data and carried as bare data, or a flattened file judged like every other download.
					w.Probe("downloads_with_unusual_options_field")
					preview = int(res.XferSize) == len(remaining) && bytes.Equal(s, remaining)
				}
				if preview {
					w.Probe("preview_downloads")
					if op.N[1] >= 0 {
						w.Probe("preview_with_resume_offset")
					}
					if int(res.XferSize) != len(remaining) {
						w.Violate("c08-preview-transfer-size", "%s: reply field 108 is %d, want the remaining data size %d", what, res.XferSize, len(remaining))
					}
					if !bytes.Equal(s, remaining) {
						sig := "c08-preview-not-bare-data"
						if bytes.HasPrefix(s, remaining) {
							sig = "c08-preview-trailing-bytes"
						}
						w.Violate(sig, "%s: a preview must carry the bare data (from the offset) only; stream has %d bytes (remaining data %d, common prefix %d, trailing %q)", what, len(s), len(remaining), commonPrefix(string(s), string(remaining)), Short(s[min(len(s), len(remaining)):]))
					}
					continue
				}
				h, err := rp.DecodeFFOHead(s)
				if err != nil {
					w.Violate("c08-header-inconsistent", "%s: %v", what, err)
					continue
				}
				if string(h.Info.Name) != f.name {
					w.Violate("c08-header-name", "%s: flattened file header names %q", what, Short(h.Info.Name))
				}
				if int(h.DataSize) != len(remaining) {
					w.Violate("c08-data-fork-size", "%s: DATA fork header announces %d bytes, remaining data is %d", what, h.DataSize, len(remaining))
				}
				if !f.hasRsrc && int(res.XferSize) != h.Len+len(remaining) {
					w.Violate("c08-reply-transfer-size", "%s: reply field 108 is %d, header (%d) + remaining data (%d) = %d", what, res.XferSize, h.Len, len(remaining), h.Len+len(remaining))
				}
				body := s[h.Len:]
				if !bytes.HasPrefix(body, remaining) {
					w.Violate("c08-data-bytes", "%s: bytes after the header differ from the file's data from the offset (got %d bytes, common prefix %d of %d)", what, len(body), commonPrefix(string(body), string(remaining)), len(remaining))
					continue
				}
				tail := body[len(remaining):]
				if k > 0 || op.N[1] == 0 {
					w.Probe("resumed_downloads")
				}
				switch {
				case f.hasRsrc && op.N[1] < 0:
					want := append(rp.ForkHeader("MACR", uint32(len(f.rsrc))), f.rsrc...)
					if !bytes.Equal(tail, want) {
						w.Violate("c08-resource-fork", "%s: after the data come %d bytes, want MACR header + %d resource fork bytes", what, len(tail), len(f.rsrc))
					}
				case f.hasRsrc:
					// resumed download of a file with a stored resource fork: the statement only fixes the data part
					if !bytes.HasSuffix(tail, f.rsrc) {
						w.Violate("c08-resource-fork", "%s: stream does not end with the stored resource fork", what)
					}
				default:
					// no stored resource fork: nothing, or the empty MACR fork header the pinned test suite fixes
					if len(tail) != 0 && !bytes.Equal(tail, rp.ForkHeader("MACR", 0)) {
						w.Violate("c08-trailing-bytes", "%s: %d unexpected bytes after the data: %s", what, len(tail), Short(tail))
					}
				}
			}
		})
	}
	w.Sim.Run()
}

// transfer-options fields other than the two-byte value 2 of a preview request
var c08OddOptions = [][]byte{{}, {0, 1}, {2}, {0, 0}, {0, 2, 0}}

func shortName(s string) string {
	if len(s) > 24 {
		return s[:24] + "..."
	}
	return s
}

func init() {
	Register(&Scenario{ID: "C08", Gen: genC08, Run: runC08})
}
