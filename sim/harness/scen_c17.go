package harness

import (
	"bytes"
	"fmt"
	"math/rand"
	"strings"
	"time"

	"github.com/jhalter/mobius/internal/mobius"
	rp "github.com/jhalter/mobius/verifsim/refproto"
	"github.com/jhalter/mobius/verifsim/simrt"
)

// C17: disconnects and bans are enforced at the door (DESIGN §6 C17).

func genC17(rng *rand.Rand, c *Case) {
	c.Cfg["policy"] = rng.Intn(3)
	// the operator reloads the configuration (SIGHUP / admin API) while requests are in flight
	c.Cfg["reloads"] = rng.Intn(2)
	c.Cfg["reload_delay"] = rng.Intn(60)
	c.Cfg["seg_c2s"] = rng.Intn(2)
	n := 1 + rng.Intn(3)
	for v := 0; v < n; v++ {
		// kick: N[0] option (0 none, 1 temporary, 2 permanent), N[1] second ban later (0 none, 1 temp, 2 perm)
		kick := Op{C: v, K: "kick", N: []int{rng.Intn(3), rng.Intn(4) % 3, 0, 0}}
		c.Ops = append(c.Ops, kick)
		// reconnect attempts at offsets (seconds after the kick); negative = restart the server before the attempt
		offs := []int{3, 5 + rng.Intn(600), 1799, 1801, 1805 + rng.Intn(4000)}
		rng.Shuffle(len(offs), func(i, j int) { offs[i], offs[j] = offs[j], offs[i] })
		offs = offs[:2+rng.Intn(4)]
		for _, o := range offs {
			c.Ops = append(c.Ops, Op{C: v, K: "reconnect", N: []int{o, rng.Intn(4) / 3, rng.Intn(3)}})
		}
		// a second session from the same address, logged in before the temporary ban and left alone by it, is
		// banned in its turn (N[2]: 1 temporary, 2 permanent) N[3] seconds after the first ban - while that one
		// is still running.  Drawn after everything else of this victim.
		if kick.N[0] == 1 && rng.Intn(2) == 0 {
			kick.N[2], kick.N[3] = 1+rng.Intn(2), []int{4, 10 + rng.Intn(1700), 1790}[rng.Intn(3)]
		}
	}
}

func runC17(w *World) {
	w.AddAccount("admin", "Admin", "adminpw", rp.AllAccess().With(rp.PCannotBeDiscon))
	w.AddAccount("user", "User", "", rp.AccessOf(rp.PAnyName, rp.PReadChat))
	si := w.StartServer()
	if si.StartErr != nil {
		w.Violate("c17-start", "%v", si.StartErr)
		return
	}
	seq := 0
	type attempt struct {
		closedSilently, banNotice, loggedIn bool
		extra                               string
	}
	var try func(ip, name string) (attempt, *Client)
	// connect from ip, send handshake + login in one go, report what came back
	var attemptOn func(c *Client) (attempt, *Client)
	try = func(ip, name string) (attempt, *Client) {
		seq++
		c := w.NewClient(fmt.Sprintf("%s-%d", name, seq), ip)
		c.Connect()
		return attemptOn(c)
	}
	attemptOn = func(c *Client) (attempt, *Client) {
		login := rp.Tran{Type: rp.TLogin, ID: 1, Fields: []rp.Field{rp.F(rp.FUserLogin, rp.Obfuscate([]byte("user"))), rp.F(rp.FUserPassword, nil), rp.FS(rp.FUserName, c.Name), rp.F16(rp.FUserIconID, 1)}}
		c.Sent[1] = rp.TLogin
		c.nextID = 2
		_ = c.SendRaw(append(rp.Handshake(), login.Encode()...))
		c.WaitFor(func() bool { return c.Closed || len(c.Replies[1]) > 0 }, 20*time.Second)
		var a attempt
		if len(c.Replies[1]) > 0 && c.Replies[1][0].T.Err == 0 {
			a.loggedIn = true
			c.LoggedIn = true
			return a, c
		}
		c.WaitFor(func() bool { return c.Closed }, 20*time.Second)
		if len(c.HSReply) == 0 && len(c.Raw) == 0 {
			a.closedSilently = true
			return a, c
		}
		if bytes.Equal(c.HSReply, rp.HandshakeOK) && len(c.AllRecv) == 1 && c.AllRecv[0].T.Type == rp.TServerMsg && c.AllRecv[0].T.IsReply == 0 && c.FrameErr == nil && c.parsed == len(c.Raw) {
			a.banNotice = true
			return a, c
		}
		kinds := ""
		for _, r := range c.AllRecv {
			kinds += fmt.Sprintf("%d/%d ", r.T.Type, r.T.IsReply)
		}
		a.extra = fmt.Sprintf("handshake reply %x, %d transactions [%s], frame error %v", c.HSReply, len(c.AllRecv), kinds, c.FrameErr)
		return a, c
	}

	var admin, observer *Client
	loginStaff := func() bool {
		seq++
		admin = w.NewClient("admin-nick", fmt.Sprintf("10.8.0.%d", seq%250+1))
		seq++
		observer = w.NewClient("observer-nick", fmt.Sprintf("10.8.1.%d", seq%250+1))
		return admin.Login("admin", "adminpw", "", 0) && admin.Agree(admin.Name, 0, 0, "") && observer.Login("user", "", "", 0) && observer.Agree(observer.Name, 0, 0, "")
	}

	w.Sim.Go("flow", true, func() {
		if !loginStaff() {
			w.Violate("c17-login", "staff could not log in")
			return
		}
		nv := 0
		for _, op := range w.Case.Ops {
			nv = max(nv, op.C+1)
		}
		for v := 0; v < nv; v++ {
			ip := fmt.Sprintf("10.20.%d.7", v)
			neighbour := fmt.Sprintf("10.20.%d.8", v) // same /24, different address
			var kick Op
			var recon []Op
			for _, op := range w.Case.Ops {
				if op.C == v && op.K == "kick" {
					kick = op
				}
				if op.C == v && op.K == "reconnect" {
					recon = append(recon, op)
				}
			}
			if kick.K == "" {
				continue
			}
			a, vc := try(ip, "victim")
			if !a.loggedIn {
				w.Violate("c17-fresh-address-refused", "a user from the fresh address %s could not log in: %+v", ip, a)
				return
			}
			vid := vc.MyUserID()
			var twin *Client
			if len(kick.N) > 3 && kick.N[2] > 0 && kick.N[0] == 1 {
				simrt.Sleep(2100 * time.Millisecond)
				var ta attempt
				if ta, twin = try(ip, "twin"); !ta.loggedIn {
					w.Violate("c17-fresh-address-refused", "a second user from the address %s could not log in: %+v", ip, ta)
					return
				}
			}
			// a second connection from the same address, accepted before the ban is requested (it has not sent
			// its handshake yet); it completes handshake + login only after the ban
			var spare *Client
			if kick.N[1]%2 == 1 || kick.N[0] == 2 {
				simrt.Sleep(2100 * time.Millisecond)
				seq++
				spare = w.NewClient(fmt.Sprintf("spare-%d", seq), ip)
				spare.Connect()
				w.Probe("spare_connection_opened_before_ban")
			}
			SettleShort()
			obsBefore := len(observer.InboxOf(rp.TNotifyDeleteUser))
			kickAt := w.Sim.Now()
			if w.Case.Cfg["reloads"] == 1 {
				w.ReloadDuring(w.Case.Cfg["reload_delay"])
			}
			rep, ok := admin.DisconnectUser(vid, kick.N[0])
			if !ok || rep.Err != 0 {
				w.Violate("c17-disconnect-refused", "administrator's disconnect request (option %d) refused: %s", kick.N[0], fieldStr(rep, rp.FError))
				return
			}
			simrt.Sleep(2500 * time.Millisecond)
			if !vc.Closed {
				w.Violate("c17-victim-not-disconnected", "2.5 s after the disconnect request (option %d) the victim's connection is still open", kick.N[0])
				return
			}
			told := false
			for _, r := range observer.InboxOf(rp.TNotifyDeleteUser)[obsBefore:] {
				if id, _ := r.T.Get(rp.FUserID); len(id) == 2 && uint16(id[0])<<8|uint16(id[1]) == vid {
					told = true
				}
			}
			if !told {
				w.Violate("c17-others-not-told", "the other users were not told that the disconnected user (id %d) left", vid)
				return
			}
			if spare != nil {
				a, _ := attemptOn(spare)
				switch {
				case kick.N[0] == 0 && !a.loggedIn && !a.closedSilently:
					w.Violate("c17-kick-without-ban-refuses-address", "a connection from the kicked (not banned) user's address, opened before the kick, could not log in after it: %+v", a)
					return
				case kick.N[0] != 0 && !a.banNotice && !a.closedSilently:
					w.Violate("c17-banned-address-admitted", "a connection from the banned address that was accepted before the ban and sent its handshake after it was not refused (logged in=%v %s)", a.loggedIn, a.extra)
					return
				}
				if a.loggedIn {
					spare.Disconnect()
				}
				simrt.Sleep(2100 * time.Millisecond)
			}
			// ban state model
			perm := kick.N[0] == 2
			var until time.Duration // temporary ban end (0: none)
			if kick.N[0] == 1 {
				until = kickAt + 30*time.Minute
			}
			secondDone := false
			last := w.Sim.Now()
			// attempts in chronological order
			for i := 0; i < len(recon); i++ {
				for j := i + 1; j < len(recon); j++ {
					if recon[j].N[0] < recon[i].N[0] {
						recon[i], recon[j] = recon[j], recon[i]
					}
				}
			}
			// the ban of the second session: replaces the running temporary ban
			banTwin := func() bool {
				t := twin
				twin = nil
				if t.Closed {
					return true // went down with a restart, or was closed by the first ban: nothing to ban
				}
				kickAt2 := w.Sim.Now()
				if w.Case.Cfg["reloads"] == 1 {
					w.ReloadDuring(w.Case.Cfg["reload_delay"] / 3)
				}
				rep, ok := admin.DisconnectUser(t.MyUserID(), kick.N[2])
				if !ok || rep.Err != 0 {
					w.Violate("c17-disconnect-refused", "administrator's disconnect request (option %d) for the second session from %s refused: %s", kick.N[2], ip, fieldStr(rep, rp.FError))
					return false
				}
				simrt.Sleep(2500 * time.Millisecond)
				if !t.Closed {
					w.Violate("c17-victim-not-disconnected", "2.5 s after the disconnect request (option %d) the second session from %s is still open", kick.N[2], ip)
					return false
				}
				if kick.N[2] == 2 {
					perm = true
				} else {
					until = kickAt2 + 30*time.Minute
				}
				last = w.Sim.Now()
				w.Probe("ban_replaces_running_temporary_ban")
				return true
			}
			for _, r := range recon {
				at := kickAt + time.Duration(r.N[0])*time.Second
				if twin != nil && kickAt+time.Duration(kick.N[3])*time.Second <= at {
					if d := kickAt + time.Duration(kick.N[3])*time.Second - w.Sim.Now(); d > 0 {
						simrt.Sleep(d)
					}
					if !banTwin() {
						return
					}
				}
				if at < last+2100*time.Millisecond {
					at = last + 2100*time.Millisecond // stay clear of the 2 s per-address connection limiter
				}
				if d := at - w.Sim.Now(); d > 0 {
					simrt.Sleep(d)
				}
				if r.N[1] == 1 {
					// the server process is restarted before this attempt: only the ban file survives
					w.StopServer()
					simrt.Sleep(3 * time.Second)
					if si := w.StartServer(); si.StartErr != nil {
						w.Violate("c17-restart-fails", "server does not restart: %v", si.StartErr)
						return
					}
					w.Probe("restarts")
					if !loginStaff() {
						w.Violate("c17-login", "staff could not log in after restart")
						return
					}
				}
				now := w.Sim.Now()
				last = now
				banned := perm || (until > 0 && now < until)
				nearEdge := until > 0 && !perm && (now > until-500*time.Millisecond && now < until+500*time.Millisecond)
				from := ip
				if r.N[2] == 2 {
					from = neighbour
				}
				usersBefore, _ := observer.UserList()
				obsMsgs := len(observer.Inbox)
				a, rc := try(from, "returning")
				w.Probe("reconnects")
				desc := fmt.Sprintf("reconnect from %s at kick+%v (ban option %d, temporary ban ends kick+30m, permanent=%v, restart before=%v)", from, now-kickAt, kick.N[0], perm, r.N[1] == 1)
				switch {
				case a.closedSilently:
					w.Probe("closed_by_rate_limiter")
				case from == neighbour || !banned:
					if !a.loggedIn && !nearEdge {
						sig := "c17-unbanned-address-refused"
						if from == ip {
							sig = "c17-expired-ban-still-enforced"
							if kick.N[0] == 0 {
								sig = "c17-kick-without-ban-refuses-address"
							}
						}
						w.Violate(sig, "%s: must be able to log in, got ban notice=%v %s", desc, a.banNotice, a.extra)
						return
					}
					w.Probe("reconnect_allowed")
				default:
					if nearEdge {
						break
					}
					if !a.banNotice {
						sig := "c17-banned-address-admitted"
						if !a.loggedIn {
							sig = "c17-ban-refusal-malformed"
						}
						w.Violate(sig, "%s: the address is banned; expected handshake reply, one ban notice, close - got logged in=%v %s", desc, a.loggedIn, a.extra)
						return
					}
					w.Probe("reconnect_refused_by_ban")
					// its login transaction must have had no effect
					SettleShort()
					usersAfter, _ := observer.UserList()
					if len(usersAfter) != len(usersBefore) {
						w.Violate("c17-banned-login-had-effect", "%s: the user list changed from %d to %d entries", desc, len(usersBefore), len(usersAfter))
						return
					}
					for _, m := range observer.Inbox[obsMsgs:] {
						id, _ := m.T.Get(rp.FUserID)
						known := false
						for _, u := range usersBefore { // notices about users already present (e.g. idle marking) are not caused by the banned peer
							known = known || (len(id) == 2 && uint16(id[0])<<8|uint16(id[1]) == u.ID)
						}
						if !known && (m.T.Type == rp.TNotifyChangeUser || m.T.Type == rp.TNotifyDeleteUser) {
							w.Violate("c17-banned-login-had-effect", "%s: other users received a presence notice (type %d)", desc, m.T.Type)
							return
						}
					}
				}
				if a.loggedIn {
					rc.Disconnect()
					SettleShort()
				}
				// a second ban of the same address later on (temporary after permanent and vice versa)
				if !secondDone && kick.N[1] > 0 && a.loggedIn && from == ip {
					secondDone = true
					simrt.Sleep(2100 * time.Millisecond)
					last = w.Sim.Now()
					a2, vc2 := try(ip, "again")
					if a2.loggedIn {
						id2 := vc2.MyUserID()
						kickAt2 := w.Sim.Now()
						if w.Case.Cfg["reloads"] == 1 {
							w.ReloadDuring(w.Case.Cfg["reload_delay"] / 2)
						}
						if rep, ok := admin.DisconnectUser(id2, kick.N[1]); ok && rep.Err == 0 {
							simrt.Sleep(2500 * time.Millisecond)
							if kick.N[1] == 2 {
								perm = true
							} else {
								until = kickAt2 + 30*time.Minute
							}
							w.Probe("second_bans")
						}
					}
				}
			}
			if twin != nil {
				if d := kickAt + time.Duration(kick.N[3])*time.Second - w.Sim.Now(); d > 0 {
					simrt.Sleep(d)
				}
				if !banTwin() {
					return
				}
			}
			// the ban file a fresh instance loads agrees with the model
			bf, err := mobius.NewBanFile(strings.TrimSuffix(w.ConfigDir, "/") + "/Banlist.yaml")
			if err != nil {
				w.Violate("c17-ban-file-unloadable", "NewBanFile: %v", err)
				return
			}
			isB, t := bf.IsBanned(ip)
			if perm && !(isB && t == nil) {
				w.Violate("c17-permanent-ban-not-persisted", "address %s is permanently banned but the reloaded ban file says banned=%v until=%v", ip, isB, t)
				return
			}
			if !perm && until > 0 && !isB {
				w.Violate("c17-temporary-ban-not-persisted", "address %s was temporarily banned but the reloaded ban file does not list it", ip)
				return
			}
		}
	})
	w.Sim.Run()
}

func init() {
	Register(&Scenario{ID: "C17", Gen: genC17, Run: runC17})
}
