package harness

import (
	"fmt"
	"math/rand"
	"os"
	"path/filepath"
	"time"

	"github.com/jhalter/mobius/hotline"
	rp "github.com/jhalter/mobius/verifsim/refproto"
	"github.com/jhalter/mobius/verifsim/simnet"
	"github.com/jhalter/mobius/verifsim/simrt"
)

// C03: hostile input is contained to the offending connection (DESIGN §6 C03).

var hostileKinds = []string{"garbage", "badlogin", "mutreq", "badframe", "xfer-garbage", "xfer-upload", "stall", "burst", "xfer-folder", "halfhandshake"}

func genC03(rng *rand.Rand, c *Case) {
	// a sixth of the cases make every function entry of the server a scheduling point (races on lock-free shared state)
	c.Cfg["fnyield"] = rng.Intn(6) / 5
	c.Cfg["policy"] = rng.Intn(3)
	c.Cfg["seg_c2s"] = rng.Intn(3)
	c.Cfg["sentinels"] = 1 + rng.Intn(3)
	c.Cfg["hb"] = 1 // map happens-before monitor on
	if rng.Intn(3) == 0 {
		c.Cfg["sendbuf"] = []int{2048, 8192, 40000}[rng.Intn(3)]
	}
	h := 1 + rng.Intn(12)
	if c.Tier == "thorough" {
		h = 1 + rng.Intn(20)
	}
	for i := 0; i < h; i++ {
		k := hostileKinds[rng.Intn(len(hostileKinds))]
		c.Ops = append(c.Ops, Op{C: i, K: k, N: []int{rng.Intn(1 << 30), rng.Intn(3), 1 + rng.Intn(12), rng.Intn(4), rng.Intn(60)}})
	}
}

func runC03(w *World) {
	cfg := w.Case.Cfg
	ns := cfg["sentinels"]
	// hostile peers log in with an account that cannot legitimately harm the sentinels: no kicking, no account
	// editing, no deleting/moving/renaming of the files the sentinels list
	hostileAcc := rp.AllAccess().Without(rp.PDisconUser, rp.PDeleteUser, rp.PModifyUser, rp.PCreateUser, rp.PNoAgreement,
		rp.PDeleteFile, rp.PDeleteFolder, rp.PMoveFile, rp.PMoveFolder, rp.PRenameFile, rp.PRenameFolder)
	w.AddAccount("guest", "Guest", "", hostileAcc)
	w.AddAccount("admin", "Admin", "adminpw", rp.AllAccess())
	w.AddAccount("sentinel", "Sentinel", "spw", rp.AllAccess().Without(rp.PNoAgreement))
	must(os.MkdirAll(filepath.Join(w.FileRoot, "Uploads", "sub"), 0755))
	must(os.WriteFile(filepath.Join(w.FileRoot, "readme.txt"), GenData(3, 3000), 0644))
	must(os.WriteFile(filepath.Join(w.FileRoot, "Uploads", "part.bin.incomplete"), GenData(4, 100), 0644))
	w.WriteFile("ThreadedNews.yaml", "Categories: {}\n")
	si := w.StartServer()

	env := &valueEnv{Names: []string{"readme.txt", "Uploads", "part.bin", "missing"}, Paths: [][]string{{"Uploads"}, {"Uploads", "sub"}, {"nowhere"}}, Logins: []string{"guest", "admin", "sentinel", "ghost"}, Cats: []string{"General"}}

	phase := 0 // 0: sentinels logging in, 1: hostile traffic, 2: hostile gone
	var phaseQ simrt.WaitQ
	setPhase := func(p int) { phase = p; simrt.Wake(&phaseQ) }
	waitPhase := func(p int) {
		for phase < p {
			simrt.Park(&phaseQ)
		}
	}
	sentReady, hostDone := 0, 0
	var sentinels []*Client
	probeFail := func(c *Client, what string) {
		sig := "c03-sentinel-unanswered"
		if c.Closed {
			sig = "c03-sentinel-connection-closed"
		}
		w.Violate(sig, "sentinel %d: %s (closed=%v err=%v)", c.Idx, what, c.Closed, c.CloseErr)
	}
	probe := func(c *Client, round string) bool {
		if _, ok := c.Do(rp.TKeepAlive); !ok {
			probeFail(c, "keep-alive "+round+" not answered")
			return false
		}
		if us, ok := c.UserList(); !ok || len(us) == 0 {
			probeFail(c, "user list "+round+" not answered")
			return false
		}
		if r, ok := c.Do(rp.TGetFileNameList); !ok || r.Err != 0 {
			probeFail(c, "file list "+round+" not answered")
			return false
		}
		before := len(c.InboxOf(rp.TChatMsg))
		c.Request(rp.TChatSend, rp.FS(rp.FData, fmt.Sprintf("probe-%d-%s", c.Idx, round)))
		if !c.WaitFor(func() bool { return len(c.InboxOf(rp.TChatMsg)) > before }, defTimeout) {
			probeFail(c, "own chat line "+round+" not delivered")
			return false
		}
		return true
	}

	for i := 0; i < ns; i++ {
		idx := i
		c := w.NewClient(fmt.Sprintf("sentinel%d", i), fmt.Sprintf("10.1.0.%d", i+1))
		sentinels = append(sentinels, c)
		w.Sim.Go(fmt.Sprintf("s%d", i), true, func() {
			login, pw := "sentinel", "spw"
			if idx == 0 {
				login, pw = "admin", "adminpw"
			}
			ok := c.Login(login, pw, "", 0) && c.Agree(c.Name, uint16(idx), 0, "")
			if !ok {
				w.Violate("c03-sentinel-login", "sentinel %d could not log in", idx)
			}
			uid := c.MyUserID()
			env.UIDs = append(env.UIDs, uid)
			sentReady++
			if sentReady == ns {
				setPhase(1)
			}
			waitPhase(1)
			// keep working while the hostile connections are active
			orng := rand.New(rand.NewSource(w.Case.Seed ^ int64(idx+1)*31337))
			for round := 0; round < 5 && phase == 1 && !c.Closed; round++ {
				if !probe(c, fmt.Sprintf("during-%d", round)) {
					return
				}
				if idx == 0 {
					// administrator: account and roster operations overlap hostile logins
					switch orng.Intn(8) {
					case 6, 7:
						// the account the hostile peers log in with disappears and comes back while they are logging in
						for k := 0; k < 3; k++ {
							c.DeleteUser("guest")
							Delay(orng.Intn(12))
							c.NewUser("guest", "Guest", "", hostileAcc)
							Delay(orng.Intn(12))
						}
						w.Probe("admin_deletes_and_recreates_hostile_account")
					case 4, 5:
						// the administrator kicks a hostile user it sees in the user list - who may have left a moment ago -
						// or invites it to a private chat
						if us, ok := c.UserList(); ok {
							var cands []uint16
							for _, u := range us {
								if len(u.Name) >= 7 && u.Name[:7] == "hostile" {
									cands = append(cands, u.ID)
								}
							}
							if len(cands) > 0 {
								target := cands[orng.Intn(len(cands))]
								Delay(orng.Intn(30))
								if orng.Intn(2) == 0 {
									c.DisconnectUser(target, 0)
									w.Probe("admin_kicks_hostile_user")
								} else {
									c.Do(rp.TInviteNewChat, rp.F16(rp.FUserID, target))
									w.Probe("admin_invites_hostile_user")
								}
							}
						}
					case 0:
						c.SetUser("guest", "Guest", hostileAcc, PwAbsent, "")
					case 1:
						c.NewUser(fmt.Sprintf("tmp%d", round), "Tmp", "x", rp.AccessOf(rp.PReadChat))
					case 2:
						c.DeleteUser(fmt.Sprintf("tmp%d", round-1))
					case 3:
						c.Do(rp.TUserBroadcast, rp.FS(rp.FData, randText(orng, 1+orng.Intn(9000)*(1+4*(orng.Intn(4)/3)))))
					}
				} else if orng.Intn(3) == 0 {
					c.Do(rp.TOldPostNews, rp.FS(rp.FData, randText(orng, orng.Intn(3000))))
				}
				Delay(5 + orng.Intn(40))
			}
			waitPhase(2)
			// everything hostile is gone: let delayed closes and transfer sleeps run out, then probe again
			simrt.Sleep(12 * time.Second)
			if c.Closed {
				probeFail(c, "connection closed by the server")
				return
			}
			if !probe(c, "after") {
				return
			}
			// the transfer port still works
			res := c.Download(nil, "readme.txt", -1, false)
			if !res.OK || len(res.Stream) < 3000 {
				w.Violate("c03-transfer-port-dead", "sentinel %d: download after the hostile batch failed (ok=%v, %d bytes, err=%v)", idx, res.OK, len(res.Stream), res.Err)
			}
			simrt.Sleep(6 * time.Second)
			c.Final, _ = c.UserList()
		})
	}

	nh := 0
	for _, op := range w.Case.Ops {
		nh = max(nh, op.C+1)
	}
	var hostileConns []*simnet.Conn
	for _, op := range w.Case.Ops {
		op := op
		w.Sim.Go(fmt.Sprintf("h%d", op.C), true, func() {
			defer func() {
				hostDone++
				if hostDone == len(w.Case.Ops) {
					// hostile connections are gone
					for _, x := range hostileConns {
						x.Reset()
					}
					setPhase(2)
				}
			}()
			waitPhase(1)
			rng := rand.New(rand.NewSource(int64(op.N[0])))
			Delay(op.N[4])
			w.StatsDuring(rng.Intn(40)) // the operator's monitoring polls the statistics while connections come and go
			w.StatsDuring(rng.Intn(200))
			ip := fmt.Sprintf("10.66.%d.%d", op.C/200, 1+op.C%200)
			if op.N[3] == 0 {
				ip = "10.66.0.1" // several hostile peers share one address (rate limiter path)
			}
			dial := func(l *simnet.Listener) *simnet.Conn {
				w.portSeq++
				x := w.Net.Dial(l, ip, 50000+w.portSeq)
				hostileConns = append(hostileConns, x)
				w.Probe("fault_hostile_conn")
				return x
			}
			end := func(x *simnet.Conn) {
				switch op.N[1] {
				case 0:
					_ = x.Close()
					w.Probe("fault_hostile_close")
				case 1:
					x.Reset()
					w.Probe("fault_hostile_reset")
				default:
					w.Probe("fault_hostile_halfopen") // vanish: never closed until the phase ends
				}
			}
			login := func(x *simnet.Conn) {
				_, _ = x.Write(rp.Handshake())
				t := rp.Tran{Type: rp.TLogin, ID: 1, Fields: []rp.Field{rp.F(rp.FUserLogin, rp.Obfuscate([]byte("guest"))), rp.F(rp.FUserPassword, nil), rp.F16(rp.FVersion, 190)}}
				_, _ = x.Write(t.Encode())
				a := rp.Tran{Type: rp.TAgreed, ID: 2, Fields: []rp.Field{rp.FS(rp.FUserName, fmt.Sprintf("hostile%d", op.C)), rp.F16(rp.FUserIconID, 1), rp.F16(rp.FOptions, 0)}}
				_, _ = x.Write(a.Encode())
			}
			drain := func(x *simnet.Conn) {
				// read and discard whatever the server sent so far (hostile peers that do read)
				_ = x.SetReadDeadline(time.Now())
				buf := make([]byte, 65536)
				for {
					if _, err := x.Read(buf); err != nil {
						return
					}
				}
			}
			switch op.K {
			case "garbage":
				x := dial(si.L)
				b := make([]byte, 1+rng.Intn(3000))
				rng.Read(b)
				if rng.Intn(2) == 0 {
					copy(b, rp.Handshake())
				}
				_, _ = x.Write(b)
				end(x)
			case "halfhandshake":
				x := dial(si.L)
				_, _ = x.Write(rp.Handshake()[:rng.Intn(12)])
				end(x)
			case "badlogin":
				x := dial(si.L)
				_, _ = x.Write(rp.Handshake())
				t := rp.Tran{Type: rp.TLogin, ID: 1, Fields: Mutate(rng, []rp.Field{rp.F(rp.FUserLogin, rp.Obfuscate([]byte("guest"))), rp.F(rp.FUserPassword, nil), rp.F16(rp.FVersion, 190)})}
				enc := t.Encode()
				if rng.Intn(2) == 0 {
					enc = CorruptFrame(rng, enc)
				}
				_, _ = x.Write(enc)
				end(x)
			case "mutreq", "badframe":
				x := dial(si.L)
				login(x)
				for i := 0; i < op.N[2]; i++ {
					spec := Catalogue[rng.Intn(len(Catalogue))]
					fs := env.ValidRequest(rng, spec)
					if rng.Intn(5) != 0 {
						fs = Mutate(rng, fs)
					}
					t := rp.Tran{Type: spec.Type, ID: uint32(10 + i), Fields: fs}
					enc := t.Encode()
					if op.K == "badframe" && i == op.N[2]-1 {
						enc = CorruptFrame(rng, enc)
					}
					_, _ = x.Write(enc)
					if os.Getenv("VERIF_DEBUG") != "" {
						fmt.Fprintf(os.Stderr, "hostile %s: %s\n", spec.Name, normFields(t))
					}
					w.Probe("hostile_requests")
					if rng.Intn(3) == 0 {
						drain(x)
					}
					Delay(rng.Intn(10))
				}
				end(x)
			case "stall":
				// logs in, never reads, while sentinels broadcast: the server's writes to it block
				x := dial(si.L)
				x.HoldIncoming(true)
				login(x)
				w.Probe("fault_stalled_peer")
				Delay(60 + rng.Intn(200))
				end(x)
			case "burst":
				for i := 0; i < 2+op.N[2]; i++ {
					x := dial(si.L)
					_, _ = x.Write(rp.Handshake())
					if rng.Intn(2) == 0 {
						t := rp.Tran{Type: rp.TLogin, ID: 1, Fields: []rp.Field{rp.F(rp.FUserLogin, rp.Obfuscate([]byte("guest")))}}
						_, _ = x.Write(t.Encode())
					}
					w.Probe("fault_burst_conn")
				}
			case "xfer-garbage":
				x := dial(si.LT)
				b := make([]byte, 1+rng.Intn(600))
				rng.Read(b)
				switch rng.Intn(3) {
				case 0:
					copy(b, "HTXF")
				case 1:
					b = rp.XferPreamble([]byte{1, 2, 3, 4}, 100) // unknown reference number
				}
				_, _ = x.Write(b)
				end(x)
			case "xfer-upload", "xfer-folder":
				// a logged-in hostile client obtains a reference number properly, then abuses the transfer stream
				c := w.NewClient(fmt.Sprintf("hostile%d", op.C), ip)
				c.Connect()
				hostileConns = append(hostileConns, c.Conn)
				if !c.Login("guest", "", "", 0) || !c.Agree(c.Name, 0, 0, "") {
					return
				}
				var ref []byte
				if op.K == "xfer-upload" {
					r, _, _, ok := c.UploadReq([]string{"Uploads"}, fmt.Sprintf("h%d.bin", op.C), 1000, rng.Intn(3) == 0)
					if !ok {
						return
					}
					ref = r
				} else {
					rep, ok := c.Do(rp.TUploadFldr, rp.FS(rp.FFileName, fmt.Sprintf("hf%d", op.C)), rp.F(rp.FFilePath, rp.FilePath("Uploads")), rp.F32(rp.FTransferSize, 1000), rp.F16(rp.FFolderItemCount, uint16(1+rng.Intn(3))))
					if !ok || rep.Err != 0 {
						return
					}
					ref, _ = rep.Get(rp.FRefNum)
				}
				stream := UploadStream(ref, "x.bin", GenData(1, 500), nil, rng.Intn(2) == 0, "")
				if op.K == "xfer-folder" {
					stream = append(rp.XferPreamble(ref, 0), randBytes(rng, rng.Intn(300))...)
				}
				// corrupt: declared sizes up to 1 MiB that never arrive, damaged fork headers, cuts
				switch rng.Intn(5) {
				case 0:
					stream = stream[:rng.Intn(len(stream))]
				case 1:
					if len(stream) > 60 {
						i := 16 + rng.Intn(len(stream)-16)
						stream[i] ^= 0xff
					}
				case 2:
					if len(stream) > 56 {
						stream[16+24+12], stream[16+24+13], stream[16+24+14], stream[16+24+15] = 0, 0x10, 0, 0 // info fork of 1 MiB
					}
				case 3:
					stream = append(stream[:16], randBytes(rng, 200)...)
				}
				for k := 0; k < 1+rng.Intn(2); k++ { // possibly two connections with the same reference number
					x := dial(si.LT)
					_, _ = x.Write(stream)
					w.Probe("fault_hostile_upload_stream")
					Delay(rng.Intn(30))
					end(x)
				}
				end(c.Conn)
			}
		})
	}
	if len(w.Case.Ops) == 0 {
		w.Sim.Go("nohostile", true, func() { waitPhase(1); setPhase(2) })
	}
	w.Sim.Run()

	// ---- verdicts ----
	for _, d := range w.Sim.Deaths {
		w.Violate("c03-process-death", "panic escaped goroutine %s: %v (in a real process this terminates the server)", d.Name, d.Panicked)
	}
	seenRace := map[string]bool{}
	for _, r := range w.Sim.MapRaces {
		key := r.Site1 + "|" + r.Site2
		if r.Site2 < r.Site1 {
			key = r.Site2 + "|" + r.Site1
		}
		if !seenRace[key] {
			seenRace[key] = true
			w.Violate("c03-concurrent-map-access "+key, "unsynchronised concurrent access to a Go map (fatal error in a real process): %s", r)
		}
	}
	if w.Sim.MaxStepAlloc > 128<<20 {
		w.Violate("c03-allocation-bomb", "goroutine %s allocated %d MiB in one go on behalf of a hostile peer (a few such requests exhaust the server's memory)", w.Sim.MaxAllocName, w.Sim.MaxStepAlloc>>20)
	}
	if w.Sim.MaxStepWall > 60*time.Second {
		w.Violate("c03-cpu-wedge", "goroutine %s consumed %v of CPU time without reaching a scheduling point (a few such requests pin every core)", w.Sim.MaxStepName, w.Sim.MaxStepWall)
	}
	if w.Sim.MaxStepWall > time.Second {
		w.Probe("step_over_1s_real_time")
	}
	if os.Getenv("VERIF_DEBUG") != "" {
		fmt.Fprintf(os.Stderr, "max step: %v by %s\n", w.Sim.MaxStepWall, w.Sim.MaxStepName)
	}
	for _, l := range w.Sim.LeakedLocks {
		w.Violate("c03-lock-leaked", "goroutine %s ended while holding a mutex", l)
	}
	if w.Sim.EndCause != "done" {
		w.Violate("c03-no-quiescence", "run ended by %s: %s", w.Sim.EndCause, w.Sim.Describe())
	}
	alive := 0
	for _, c := range sentinels {
		if c.FrameErr != nil {
			w.Violate("c03-sentinel-malformed-frame", "sentinel %d received a malformed frame: %v", c.Idx, c.FrameErr)
		}
		if !c.Closed {
			alive++
		}
	}
	if len(w.Violations()) > 0 {
		return
	}
	// conservation at quiescence
	list := si.S.ClientMgr.List()
	if len(list) != alive {
		var ns []string
		for _, cc := range list {
			ns = append(ns, fmt.Sprintf("%d:%q", uint16(cc.ID[0])<<8|uint16(cc.ID[1]), cc.UserName))
		}
		w.Violate("c03-user-list-not-restored", "after the hostile connections are gone the server lists %d users %v, the well-behaved clients are %d", len(list), ns, alive)
	}
	for _, c := range sentinels {
		if c.Final != nil && len(c.Final) != alive {
			w.Violate("c03-user-list-not-restored", "sentinel %d sees %d users in the final user list, want %d", c.Idx, len(c.Final), alive)
		}
	}
	st := si.S.Stats
	if v := st.Get(hotline.StatCurrentlyConnected); v != alive {
		w.Violate("c03-counter-currently-connected", "CurrentlyConnected is %d, well-behaved clients account for %d", v, alive)
	}
	if v := st.Get(hotline.StatDownloadsInProgress); v != 0 {
		w.Violate("c03-counter-downloads-in-progress", "DownloadsInProgress is %d with no transfer running", v)
	}
	if v := st.Get(hotline.StatUploadsInProgress); v != 0 {
		w.Violate("c03-counter-uploads-in-progress", "UploadsInProgress is %d with no transfer running", v)
	}
}

func randBytes(rng *rand.Rand, n int) []byte {
	b := make([]byte, n)
	rng.Read(b)
	return b
}

func init() {
	Register(&Scenario{ID: "C03", Gen: genC03, Run: runC03})
}
