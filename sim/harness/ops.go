package harness

import (
	"encoding/binary"

	rp "github.com/jhalter/mobius/verifsim/refproto"
)

// Request helpers shared by several scenarios.  They only build well-formed requests from
// the protocol document; all checking is done by the scenarios.

// PwMode says how a password is conveyed in set-user / update-user.
const (
	PwNew       = 0 // field carries a new password
	PwUnchanged = 1 // field carries the single zero byte "unchanged" marker
	PwAbsent    = 2 // field absent: password cleared
)

func pwField(mode int, pw string) []rp.Field {
	switch mode {
	case PwNew:
		return []rp.Field{rp.F(rp.FUserPassword, rp.Obfuscate([]byte(pw)))}
	case PwUnchanged:
		return []rp.Field{rp.F(rp.FUserPassword, []byte{0})}
	}
	return nil
}

func (c *Client) NewUser(login, name, pw string, a rp.Access) (rp.Tran, bool) {
	f := []rp.Field{
		rp.F(rp.FUserLogin, rp.Obfuscate([]byte(login))),
		rp.FS(rp.FUserName, name),
		rp.F(rp.FUserAccess, a[:]),
	}
	if pw != "" {
		f = append(f, rp.F(rp.FUserPassword, rp.Obfuscate([]byte(pw))))
	}
	return c.Do(rp.TNewUser, f...)
}

func (c *Client) SetUser(login, name string, a rp.Access, pwMode int, pw string) (rp.Tran, bool) {
	f := []rp.Field{
		rp.F(rp.FUserLogin, rp.Obfuscate([]byte(login))),
		rp.FS(rp.FUserName, name),
		rp.F(rp.FUserAccess, a[:]),
	}
	f = append(f, pwField(pwMode, pw)...)
	return c.Do(rp.TSetUser, f...)
}

func (c *Client) DeleteUser(login string) (rp.Tran, bool) {
	return c.Do(rp.TDeleteUser, rp.F(rp.FUserLogin, rp.Obfuscate([]byte(login))))
}

func (c *Client) GetUser(login string) (rp.Tran, bool) {
	return c.Do(rp.TGetUser, rp.FS(rp.FUserLogin, login))
}

// UserEdit is one entry of the batched account editor (transaction 349).
type UserEdit struct {
	Kind     string // "create", "modify", "rename", "delete"
	Login    string // account to act on (for rename: the existing login)
	NewLogin string // rename target
	Name     string
	Access   rp.Access
	PwMode   int
	Pw       string
	// AccessLen: 0 = the full 8-byte access field; k > 0 = only its first k bytes; -1 = an empty access field
	AccessLen int
}

func (e UserEdit) accessBytes() []byte {
	switch {
	case e.AccessLen > 0 && e.AccessLen < 8:
		return e.Access[:e.AccessLen]
	case e.AccessLen < 0:
		return nil
	}
	return e.Access[:]
}

func subFields(fs []rp.Field) []byte {
	b := []byte{byte(len(fs) >> 8), byte(len(fs))}
	for _, f := range fs {
		b = append(b, byte(f.ID>>8), byte(f.ID), byte(len(f.Data)>>8), byte(len(f.Data)))
		b = append(b, f.Data...)
	}
	return b
}

// UpdateUsers sends one batched update-user transaction.
func (c *Client) UpdateUsers(edits []UserEdit) (rp.Tran, bool) {
	var fields []rp.Field
	for _, e := range edits {
		var sf []rp.Field
		switch e.Kind {
		case "delete":
			sf = []rp.Field{rp.F(rp.FData, rp.Obfuscate([]byte(e.Login)))}
		case "rename":
			sf = []rp.Field{
				rp.F(rp.FData, rp.Obfuscate([]byte(e.Login))),
				rp.F(rp.FUserLogin, rp.Obfuscate([]byte(e.NewLogin))),
				rp.FS(rp.FUserName, e.Name),
				rp.F(rp.FUserAccess, e.accessBytes()),
			}
			sf = append(sf, pwField(e.PwMode, e.Pw)...)
		default: // create, modify
			sf = []rp.Field{
				rp.F(rp.FUserLogin, rp.Obfuscate([]byte(e.Login))),
				rp.FS(rp.FUserName, e.Name),
				rp.F(rp.FUserAccess, e.accessBytes()),
			}
			sf = append(sf, pwField(e.PwMode, e.Pw)...)
		}
		fields = append(fields, rp.F(rp.FData, subFields(sf)))
	}
	return c.Do(rp.TUpdateUser, fields...)
}

// DisconnectUser option: 0 none, 1 temporary ban, 2 permanent ban.
func (c *Client) DisconnectUser(uid uint16, option int) (rp.Tran, bool) {
	f := []rp.Field{rp.F16(rp.FUserID, uid)}
	if option > 0 {
		f = append(f, rp.F16(rp.FOptions, uint16(option)))
	}
	return c.Do(rp.TDisconnectUser, f...)
}

// News helpers.
func newsPathField(path []string) []rp.Field {
	if len(path) == 0 {
		return nil
	}
	return []rp.Field{rp.F(rp.FNewsPath, rp.NewsPath(path...))}
}

func (c *Client) NewNewsCat(path []string, name string) (rp.Tran, bool) {
	return c.Do(rp.TNewNewsCat, append([]rp.Field{rp.FS(rp.FNewsCatName, name)}, newsPathField(path)...)...)
}

func (c *Client) NewNewsBundle(path []string, name string) (rp.Tran, bool) {
	return c.Do(rp.TNewNewsFldr, append([]rp.Field{rp.FS(rp.FFileName, name)}, newsPathField(path)...)...)
}

func (c *Client) PostArticle(path []string, parent uint32, title, body string) (rp.Tran, bool) {
	f := append(newsPathField(path),
		rp.F32(rp.FNewsArtID, parent),
		rp.FS(rp.FNewsArtTitle, title),
		rp.F32(rp.FNewsArtFlags, 0),
		rp.FS(rp.FNewsArtDataFlav, "text/plain"),
		rp.FS(rp.FNewsArtData, body))
	return c.Do(rp.TPostNewsArt, f...)
}

func (c *Client) DelArticle(path []string, id uint32) (rp.Tran, bool) {
	return c.Do(rp.TDelNewsArt, append(newsPathField(path), rp.F32(rp.FNewsArtID, id), rp.F16(rp.FNewsArtRecurseDel, 0))...)
}

func (c *Client) DelNewsItem(path []string) (rp.Tran, bool) {
	return c.Do(rp.TDelNewsItem, newsPathField(path)...)
}

func (c *Client) GetArticle(path []string, id uint32) (rp.Tran, bool) {
	return c.Do(rp.TGetNewsArtData, append(newsPathField(path), rp.F32(rp.FNewsArtID, id), rp.FS(rp.FNewsArtDataFlav, "text/plain"))...)
}

func (c *Client) ListArticles(path []string) (rp.Tran, bool) {
	return c.Do(rp.TGetNewsArtNameList, newsPathField(path)...)
}

func (c *Client) ListCategories(path []string) (rp.Tran, bool) {
	return c.Do(rp.TGetNewsCatNameList, newsPathField(path)...)
}

// MyUserID finds this client's user id in the user list by its (unique) name.
func (c *Client) MyUserID() uint16 {
	id, _ := c.FindMyUserID()
	return id
}

// FindMyUserID is MyUserID with an explicit "found" result (0 is a possible id).
func (c *Client) FindMyUserID() (uint16, bool) {
	us, ok := c.UserList()
	if !ok {
		return 0, false
	}
	for _, u := range us {
		if u.Name == c.Name {
			c.UserID = u.ID
			return u.ID, true
		}
	}
	return 0, false
}

func be32(b []byte) uint32 {
	if len(b) != 4 {
		return 0
	}
	return binary.BigEndian.Uint32(b)
}
