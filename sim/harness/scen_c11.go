package harness

import (
	"bytes"
	"fmt"
	"math/rand"
	"os"
	"path/filepath"
	"regexp"
	"sort"
	"strings"

	rp "github.com/jhalter/mobius/verifsim/refproto"
	"golang.org/x/text/encoding/charmap"
)

// C11: file views agree and file operations carry the whole file (DESIGN §6 C11).

// nsEntry is one visible entry of the reference namespace model.
type nsEntry struct {
	Dir      bool
	Data     []byte
	Rsrc     []byte // nil: no stored resource fork
	Info     bool   // an information fork side file exists
	Comment  string
	Partial  bool   // only <name>.incomplete exists
	Alias    string // non-empty: symlink to this model path
	Pinned   bool   // an alias points at (or below) this entry: it is not renamed, moved or deleted any more
	Children map[string]*nsEntry
}

func macToUTF8(b []byte) string {
	s, err := charmap.Macintosh.NewDecoder().Bytes(b)
	if err != nil {
		return string(b)
	}
	return string(s)
}

func newDir() *nsEntry { return &nsEntry{Dir: true, Children: map[string]*nsEntry{}} }

// lookup returns the directory entry for a path of Mac-Roman names.
func (root *nsEntry) lookup(path []string) *nsEntry {
	cur := root
	for _, p := range path {
		if cur == nil || !cur.Dir {
			return nil
		}
		cur = cur.Children[p]
	}
	return cur
}

// expectDisk renders the model as the disk tree it must correspond to (relative UTF-8 paths -> size or "<dir>").
func (e *nsEntry) expectDisk(prefix string, out map[string]string) {
	for name, c := range e.Children {
		u := macToUTF8([]byte(name))
		p := filepath.Join(prefix, u)
		switch {
		case c.Alias != "":
			out[p] = "<link>"
		case c.Dir:
			out[p] = "<dir>"
			c.expectDisk(p, out)
		case c.Partial:
			out[p+".incomplete"] = fmt.Sprint(len(c.Data))
		default:
			out[p] = fmt.Sprint(len(c.Data))
		}
		if c.Info {
			out[filepath.Join(prefix, ".info_"+u)] = "info"
		}
		if c.Rsrc != nil {
			out[filepath.Join(prefix, ".rsrc_"+u)] = fmt.Sprint(len(c.Rsrc))
		}
	}
}

func diskView(root string) map[string]string {
	out := map[string]string{}
	for k, v := range SnapshotTree(root) {
		switch {
		case v == "<dir>":
			out[k] = v
		case strings.HasPrefix(v, "<link>"):
			out[k] = "<link>"
		case strings.HasPrefix(filepath.Base(k), ".info_"):
			out[k] = "info"
		default:
			out[k] = fmt.Sprint(len(v))
		}
	}
	return out
}

var c11Names = []string{"a", "readme.txt", "Pic ture.jpg", "notes.incomplete.txt", "data.info_x", "caf\x8e.txt", "\xa5bullet", "UPPER.SIT", "zz top.mp3", "@hidden-by-default", "tmpfile.tmp", "folder.d"}

func c11Name(rng *rand.Rand, used map[string]bool) string {
	for {
		var n string
		switch rng.Intn(6) {
		case 0:
			n = strings.Repeat("L", 31+rng.Intn(2)) + fmt.Sprint(rng.Intn(10)) // 31/32-byte names
		case 1:
			n = strings.Repeat("M", 240) + fmt.Sprint(rng.Intn(100)) // close to the 255-byte limit
		default:
			n = c11Names[rng.Intn(len(c11Names))]
			if rng.Intn(2) == 0 {
				n = fmt.Sprintf("%d%s", rng.Intn(10), n)
			}
		}
		if !used[n] {
			used[n] = true
			return n
		}
	}
}

func genC11(rng *rand.Rand, c *Case) {
	c.Cfg["policy"] = rng.Intn(3)
	c.Cfg["treeseed"] = rng.Intn(1 << 30)
	c.Cfg["ignore"] = rng.Intn(3) // 0 default, 1 default + \.tmp$, 2 none
	c.Cfg["forks"] = rng.Intn(2)
	n := 5 + rng.Intn(30)
	kinds := []string{"list", "info", "rename", "comment", "move", "delete", "mkdir", "mkdir-existing", "alias", "download", "list", "info"}
	for i := 0; i < n; i++ {
		c.Ops = append(c.Ops, Op{K: kinds[rng.Intn(len(kinds))], N: []int{rng.Intn(1 << 20), rng.Intn(1 << 20), rng.Intn(1 << 20)}})
	}
}

type c11Ref struct {
	path []string
	name string
	e    *nsEntry
}

func runC11(w *World) {
	cfg := w.Case.Cfg
	w.AddAccount("guest", "Guest", "", rp.AllAccess().With(rp.PNoAgreement))
	ignore := []string{`^\.`, `^@`}
	switch cfg["ignore"] {
	case 1:
		ignore = append(ignore, `\.tmp$`)
	case 2:
		ignore = []string{`^\.`} // fork side files are always hidden
	}
	w.Cfg.IgnoreFiles = ignore
	ignored := func(macName string) bool {
		u := macToUTF8([]byte(macName))
		for _, p := range ignore {
			if ok, _ := regexp.MatchString(p, u); ok {
				return true
			}
		}
		return false
	}
	// initial tree
	rng := rand.New(rand.NewSource(int64(cfg["treeseed"])))
	root := newDir()
	used := map[string]bool{}
	var build func(d *nsEntry, depth int)
	build = func(d *nsEntry, depth int) {
		k := 1 + rng.Intn(5)
		for i := 0; i < k; i++ {
			name := c11Name(rng, used)
			if rng.Intn(4) == 0 && depth < 2 {
				sub := newDir()
				d.Children[name] = sub
				build(sub, depth+1)
				continue
			}
			e := &nsEntry{Data: GenData(rng.Int63(), []int{0, 1, 77, 5000}[rng.Intn(4)])}
			if rng.Intn(4) == 0 {
				e.Rsrc = GenData(rng.Int63(), rng.Intn(300))
			}
			if rng.Intn(4) == 0 {
				e.Info, e.Comment = true, "c:"+randText(rng, rng.Intn(20))
			}
			if rng.Intn(6) == 0 && !strings.Contains(name, ".incomplete") && !strings.HasSuffix(name, ".tmp") {
				e.Partial = true
				e.Rsrc, e.Info, e.Comment = nil, false, ""
			}
			d.Children[name] = e
		}
	}
	build(root, 0)
	var mat func(d *nsEntry, dir string)
	mat = func(d *nsEntry, dir string) {
		must(os.MkdirAll(dir, 0755))
		for name, e := range d.Children {
			u := macToUTF8([]byte(name))
			p := filepath.Join(dir, u)
			if e.Dir {
				mat(e, p)
				continue
			}
			if e.Partial {
				must(os.WriteFile(p+".incomplete", e.Data, 0644))
			} else {
				must(os.WriteFile(p, e.Data, 0644))
			}
			if e.Rsrc != nil {
				must(os.WriteFile(filepath.Join(dir, ".rsrc_"+u), e.Rsrc, 0644))
			}
			if e.Info {
				info := rp.InfoFork{Platform: "AMAC", Type: "TEXT", Creator: "ttxt", Name: []byte(u), Comment: []byte(e.Comment)}
				must(os.WriteFile(filepath.Join(dir, ".info_"+u), info.Encode(), 0644))
			}
		}
	}
	mat(root, w.FileRoot)
	w.StartServer()
	c := w.NewClient("files", "10.1.0.1")

	// all (path, name) pairs of the model, deterministic order
	var collect func(d *nsEntry, path []string, out *[]c11Ref)
	collect = func(d *nsEntry, path []string, out *[]c11Ref) {
		var names []string
		for n := range d.Children {
			names = append(names, n)
		}
		sort.Strings(names)
		for _, n := range names {
			e := d.Children[n]
			*out = append(*out, c11Ref{append([]string{}, path...), n, e})
			if e.Dir && e.Alias == "" {
				collect(e, append(append([]string{}, path...), n), out)
			}
		}
	}
	dirsOf := func() [][]string {
		var all []c11Ref
		collect(root, nil, &all)
		ds := [][]string{{}}
		for _, r := range all {
			if r.e.Dir && r.e.Alias == "" {
				ds = append(ds, append(append([]string{}, r.path...), r.name))
			}
		}
		return ds
	}

	checkList := func(path []string, when string) bool {
		d := root.lookup(path)
		rep, ok := c.Do(rp.TGetFileNameList, PathField(path)...)
		if !ok || rep.Err != 0 {
			w.Violate("c11-list-unanswered", "%s: file list of %v not answered (err %d)", when, path, rep.Err)
			return false
		}
		got := map[string]rp.FileEntry{}
		for _, raw := range rep.GetAll(rp.FFileNameWithInfo) {
			e, err := rp.DecodeFileEntry(raw)
			if err != nil {
				w.Violate("c11-list-entry-malformed", "%s: %v", when, err)
				return false
			}
			if _, dup := got[e.Name]; dup {
				w.Violate("c11-list-duplicate", "%s: %q listed twice in %v", when, e.Name, path)
				return false
			}
			got[e.Name] = e
		}
		for name, e := range d.Children {
			g, listed := got[name]
			if ignored(name) {
				if listed {
					w.Violate("c11-ignored-entry-listed", "%s: %q matches an ignore pattern but is listed", when, name)
					return false
				}
				continue
			}
			if !listed {
				var have []string
				for k := range got {
					have = append(have, k)
				}
				sort.Strings(have)
				w.Violate("c11-entry-not-listed", "%s: %q (partial=%v) exists in %v but the list shows %q", when, name, e.Partial, path, have)
				return false
			}
			delete(got, name)
			if e.Dir && e.Alias == "" {
				cnt := 0
				for cn := range e.Children {
					if !ignored(cn) {
						cnt++
					}
				}
				if g.Type != "fldr" || int(g.Size) != cnt {
					var kids []string
					for cn := range e.Children {
						kids = append(kids, fmt.Sprintf("%q(ign=%v)", shortName(cn), ignored(cn)))
					}
					sort.Strings(kids)
					if ents, err := os.ReadDir(filepath.Join(append([]string{w.FileRoot}, append(utf8Path(path), macToUTF8([]byte(name)))...)...)); err == nil {
						for _, en := range ents {
							kids = append(kids, "disk:"+shortName(en.Name()))
						}
					}
					w.Violate("c11-folder-entry", "%s: folder %q listed with type %q and item count %d, has %d visible items: %v", when, shortName(name), g.Type, g.Size, cnt, kids)
					return false
				}
			} else if e.Alias == "" && !e.Partial && int(g.Size) != len(e.Data)+len(e.Rsrc) {
				w.Violate("c11-list-size", "%s: file %q listed with size %d, data+resource fork is %d", when, name, g.Size, len(e.Data)+len(e.Rsrc))
				return false
			}
		}
		for name := range got {
			w.Violate("c11-phantom-entry", "%s: list of %v shows %q, which is not an entry of the folder", when, path, name)
			return false
		}
		return true
	}
	checkDisk := func(when string) bool {
		want := map[string]string{}
		root.expectDisk("", want)
		if d := DiffTrees(want, diskView(w.FileRoot)); len(d) > 0 {
			w.Violate("c11-disk-tree-differs "+strings.SplitN(when, " ", 2)[0], "%s: files on disk differ from the requested result (side files must travel or vanish with their file): %v", when, d[:min(len(d), 6)])
			return false
		}
		return true
	}

	w.Sim.Go("c0", true, func() {
		if !c.Login("guest", "", c.Name, 1) {
			w.Violate("c11-login", "could not log in")
			return
		}
		for _, d := range dirsOf() {
			if !checkList(d, "initial") {
				return
			}
		}
		for step, op := range w.Case.Ops {
			var all []c11Ref
			collect(root, nil, &all)
			var visible, complete []c11Ref
			for _, r := range all {
				hidden := false
				for i := range r.path {
					hidden = hidden || ignored(r.path[i])
				}
				if hidden || ignored(r.name) {
					continue
				}
				visible = append(visible, r)
				if !r.e.Partial && r.e.Alias == "" {
					complete = append(complete, r)
				}
			}
			dirs := dirsOf()
			when := fmt.Sprintf("%s step %d", op.K, step)
			pickC := func() (c11Ref, bool) {
				if len(complete) == 0 {
					return c11Ref{}, false
				}
				return complete[op.N[0]%len(complete)], true
			}
			nameF := func(r c11Ref) []rp.Field {
				return append([]rp.Field{rp.FS(rp.FFileName, r.name)}, PathField(r.path)...)
			}
			touched := [][]string{}
			switch op.K {
			case "list":
				touched = append(touched, dirs[op.N[0]%len(dirs)])
			case "info", "download":
				r, ok := pickC()
				if !ok {
					continue
				}
				// list the folder, then address the entry by its LISTED bytes
				lrep, _ := c.Do(rp.TGetFileNameList, PathField(r.path)...)
				var le *rp.FileEntry
				for _, raw := range lrep.GetAll(rp.FFileNameWithInfo) {
					if e, err := rp.DecodeFileEntry(raw); err == nil && e.Name == r.name {
						le = &e
					}
				}
				if le == nil {
					checkList(r.path, when)
					return
				}
				if op.K == "info" {
					rep, ok := c.Do(rp.TGetFileInfo, nameF(r)...)
					if !ok || rep.Err != 0 {
						w.Violate("c11-listed-entry-not-addressable", "%s: get-info for listed name %q in %v failed", when, r.name, r.path)
						return
					}
					if nm, _ := rep.Get(rp.FFileName); string(nm) != r.name {
						w.Violate("c11-info-name", "%s: get-info for %q returns name %q", when, r.name, nm)
						return
					}
					ty, _ := rep.Get(rp.FFileType)
					if string(ty) != le.Type {
						w.Violate("c11-type-disagrees", "%s: %q has type %q in the list and %q in get-info", when, r.name, le.Type, ty)
						return
					}
					if !r.e.Dir {
						sz, _ := rep.Get(rp.FFileSize)
						if v, ok := rp.Int(sz); !ok || v != int(le.Size) {
							w.Violate("c11-size-disagrees", "%s: %q has size %d in the list and %v in get-info", when, r.name, le.Size, sz)
							return
						}
						cm, _ := rep.Get(rp.FFileComment)
						if string(cm) != r.e.Comment {
							w.Violate("c11-comment", "%s: %q has comment %q, get-info shows %q", when, r.name, r.e.Comment, cm)
							return
						}
					}
				} else if !r.e.Dir {
					rep, ok := c.Do(rp.TDownloadFile, nameF(r)...)
					if !ok || rep.Err != 0 {
						w.Violate("c11-listed-entry-not-addressable", "%s: download request for listed name %q failed", when, r.name)
						return
					}
					sz, _ := rep.Get(rp.FFileSize)
					if v, ok := rp.Int(sz); !ok || v != len(r.e.Data) || (r.e.Rsrc == nil && v != int(le.Size)) {
						w.Violate("c11-size-disagrees", "%s: %q: download reply file size %v, list size %d, bytes on disk %d", when, r.name, sz, le.Size, len(r.e.Data))
						return
					}
				}
			case "rename":
				r, ok := pickC()
				if !ok {
					continue
				}
				if r.e.Pinned {
					continue
				}
				nn := c11Name(rand.New(rand.NewSource(int64(op.N[1]))), used)
				rep, ok := c.Do(rp.TSetFileInfo, append(nameF(r), rp.FS(rp.FFileNewName, nn))...)
				if !ok || rep.Err != 0 {
					w.Violate("c11-listed-entry-not-addressable", "%s: rename of %q to %q refused/unanswered", when, r.name, nn)
					return
				}
				d := root.lookup(r.path)
				delete(d.Children, r.name)
				d.Children[nn] = r.e
				touched = append(touched, r.path)
			case "comment":
				r, ok := pickC()
				if !ok || r.e.Dir {
					continue
				}
				cm := "new comment " + fmt.Sprint(op.N[1]%1000)
				rep, ok := c.Do(rp.TSetFileInfo, append(nameF(r), rp.FS(rp.FFileComment, cm))...)
				if !ok || rep.Err != 0 {
					w.Violate("c11-listed-entry-not-addressable", "%s: set comment on %q refused/unanswered", when, r.name)
					return
				}
				r.e.Comment, r.e.Info = cm, true
				touched = append(touched, r.path)
			case "move":
				r, ok := pickC()
				if !ok {
					continue
				}
				dst := dirs[op.N[1]%len(dirs)]
				self := append(append([]string{}, r.path...), r.name)
				inside := len(dst) >= len(self) && strings.Join(dst[:len(self)], "\x00") == strings.Join(self, "\x00")
				dd := root.lookup(dst)
				if dd.Children[r.name] == nil && op.N[1]%3 == 0 && !r.e.Dir && r.e.Alias == "" && !r.e.Pinned && !r.e.Partial && !inside && strings.Join(dst, "\x00") != strings.Join(r.path, "\x00") {
					// prepare the collision: a folder with the file's name in the destination
					if rep, ok := c.Do(rp.TNewFolder, append([]rp.Field{rp.FS(rp.FFileName, r.name)}, PathField(dst)...)...); ok && rep.Err == 0 {
						dd.Children[r.name] = newDir()
					}
				}
				if clash := dd.Children[r.name]; clash != nil && clash.Dir && clash.Alias == "" && !r.e.Dir && r.e.Alias == "" && !r.e.Pinned && !r.e.Partial && !inside && strings.Join(dst, "\x00") != strings.Join(r.path, "\x00") {
					// a file moved into a folder that holds a FOLDER of the same name: the move cannot happen, so the file
					// stays - and its comment, type and resource fork stay with it (the model is left as it is; the
					// listing and disk comparison after this step judge it)
					c.Do(rp.TMoveFile, append(nameF(r), rp.F(rp.FFileNewPath, rp.FilePath(dst...)))...)
					w.Probe("moves_onto_a_folder_of_the_same_name")
					touched = append(touched, r.path, dst)
					break
				}
				if r.e.Pinned || inside || dd.Children[r.name] != nil || strings.Join(dst, "\x00") == strings.Join(r.path, "\x00") {
					continue // other collisions and moves into itself are outside the property
				}
				rep, ok := c.Do(rp.TMoveFile, append(nameF(r), rp.F(rp.FFileNewPath, rp.FilePath(dst...)))...)
				if !ok || rep.Err != 0 {
					w.Violate("c11-listed-entry-not-addressable", "%s: move of %q from %v to %v refused/unanswered", when, r.name, r.path, dst)
					return
				}
				delete(root.lookup(r.path).Children, r.name)
				dd.Children[r.name] = r.e
				touched = append(touched, r.path, dst)
			case "delete":
				if len(visible) == 0 {
					continue
				}
				r := visible[op.N[0]%len(visible)]
				if r.e.Alias != "" || r.e.Pinned {
					continue
				}
				rep, ok := c.Do(rp.TDeleteFile, nameF(r)...)
				if !ok || rep.Err != 0 {
					w.Violate("c11-listed-entry-not-addressable", "%s: delete of %q (partial=%v) refused/unanswered", when, r.name, r.e.Partial)
					return
				}
				delete(root.lookup(r.path).Children, r.name)
				touched = append(touched, r.path)
			case "mkdir":
				dst := dirs[op.N[0]%len(dirs)]
				nn := c11Name(rand.New(rand.NewSource(int64(op.N[1]))), used)
				rep, ok := c.Do(rp.TNewFolder, append([]rp.Field{rp.FS(rp.FFileName, nn)}, PathField(dst)...)...)
				if !ok || rep.Err != 0 {
					w.Violate("c11-new-folder-refused", "%s: new folder %q in %v refused/unanswered", when, nn, dst)
					return
				}
				root.lookup(dst).Children[nn] = newDir()
				touched = append(touched, dst)
			case "mkdir-existing":
				if len(visible) == 0 {
					continue
				}
				r := visible[op.N[0]%len(visible)]
				if r.e.Partial {
					continue
				}
				rep, ok := c.Do(rp.TNewFolder, nameF(r)...)
				if !ok || rep.Err == 0 {
					w.Violate("c11-new-folder-on-existing-name", "%s: creating a folder named like the existing entry %q was not refused (answered=%v)", when, r.name, ok)
					return
				}
				touched = append(touched, r.path)
			case "alias":
				r, ok := pickC()
				if !ok {
					continue
				}
				dst := dirs[op.N[1]%len(dirs)]
				dd := root.lookup(dst)
				if dd.Children[r.name] != nil {
					continue
				}
				rep, ok := c.Do(rp.TMakeFileAlias, append(nameF(r), rp.F(rp.FFileNewPath, rp.FilePath(dst...)))...)
				if !ok || rep.Err != 0 {
					w.Violate("c11-alias-refused", "%s: alias of %q in %v refused/unanswered", when, r.name, dst)
					return
				}
				dd.Children[r.name] = &nsEntry{Alias: "x", Dir: r.e.Dir, Data: r.e.Data, Children: r.e.Children}
				r.e.Pinned = true
				for i := 1; i <= len(r.path); i++ {
					root.lookup(r.path[:i]).Pinned = true
				}
				// aliases are only checked for presence: leave them out of later operations
				touched = append(touched, dst)
			}
			w.Probe("ops_" + op.K)
			for _, t := range touched {
				if root.lookup(t) != nil && !checkList(t, when) {
					return
				}
			}
			if len(touched) > 0 && !checkDisk(when) {
				return
			}
		}
	})
	w.Sim.Run()
	if c.FrameErr != nil {
		w.Violate("c11-malformed-stream", "%v", c.FrameErr)
	}
	_ = bytes.Equal
}

func init() {
	Register(&Scenario{ID: "C11", Gen: genC11, Run: runC11})
}

func utf8Path(p []string) []string {
	var o []string
	for _, x := range p {
		o = append(o, macToUTF8([]byte(x)))
	}
	return o
}
